import SmVerif.Proofs.AdjustEval
/-
C10 — `adjust_mappings` composes the two maps interval by interval.
Property theorems only; helper lemmas are in SmVerif/Proofs/Adjust.lean (the sweep),
Proofs/AdjustRanges.lean (`create_ranges`, arithmetic) and Proofs/AdjustSpec.lean (ranges = stretches).

Model: `Adjust.adjust` / `Adjust.adjustToks` (Model/Adjust.lean, mirrors types.rs:910-1040).
Specification: `Adjust.composeSpec` (same file): stretches `[start, end)` of both maps, one token per
pair of stretches with a non-empty overlap, ordered by generated position.

Named hypotheses:
* `coordsSmall ts`   — every coordinate of every token is below `2^30` (no `i32` computation of the
                        displacement overflows, no column is `u32::MAX`);
* `distinctKeys k ts` — no two tokens of the map at one key (`dstKey` for the original map, `srcKey`
                        for the adjustment map).  Without it the code deviates from the statement
                        (finding F16, `c10_f16_*` below): `c10_exact` says what it does instead.
-/
namespace SmVerif.C10
open SmVerif SmVerif.Lookup SmVerif.Adjust

/-! ### untouched / sorted / safe -/

/-- only the tokens change: sources, names, contents (and every other field) are untouched -/
theorem c10_untouched (m adj m' : SMap) (h : adjust m adj = .ok m') :
    m'.sources = m.sources ∧ m'.names = m.names ∧ m'.contents = m.contents ∧
    m'.prefixed = m.prefixed ∧ m'.root = m.root ∧ m'.file = m.file ∧ m'.ignore = m.ignore ∧
    m'.debugId = m.debugId := by
  unfold adjust at h
  split at h
  · cases h
  · cases h; exact ⟨rfl, rfl, rfl, rfl, rfl, rfl, rfl, rfl⟩

theorem sortToks_sorted (ts : List Tok) : SortedByPos (sortToks ts) := by
  unfold SortedByPos sortToks
  exact List.pairwise_mergeSort (le := fun a b : Tok => posLe (Tok.pos a) (Tok.pos b))
    (fun a b c h1 h2 => posLe_trans h1 h2)
    (fun a b => by rcases posLe_total (Tok.pos a) (Tok.pos b) with h | h <;> simp [h]) ts

/-- the result is ordered by generated position (all inputs) -/
theorem c10_sorted (m adj m' : SMap) (h : adjust m adj = .ok m') : SortedByPos m'.tokens := by
  unfold adjust at h
  split at h
  · cases h
  · rename_i ts hts
    cases h
    simp only
    unfold adjustToks at hts
    split at hts
    · cases hts; exact List.Pairwise.nil
    · split at hts
      · cases hts
      · cases hts; exact sortToks_sorted _

/-- no panic when all coordinates are below `2^30` (duplicated keys allowed) -/
theorem c10_safe (m adj : SMap) (ho : coordsSmall m.tokens = true) (ha : coordsSmall adj.tokens = true) :
    ∃ m', adjust m adj = .ok m' := by
  unfold adjust
  rw [adjustToks_exact _ _ ho ha]
  exact ⟨_, rfl⟩

/-- the panic is real beyond `2^31`: `dst_col as i32 - src_col as i32` overflows although the exact
result (column 5) is representable -/
theorem c10_panic_witness :
    adjustToks [⟨0, 2147483653, 1, 2, 0, 0, false⟩] [⟨0, 0, 0, 2147483648, 0, NONE, false⟩] = .error .panic ∧
    composeSpec [⟨0, 2147483653, 1, 2, 0, 0, false⟩] [⟨0, 0, 0, 2147483648, 0, NONE, false⟩]
      = [⟨0, 5, 1, 2, 0, 0, false⟩] :=
  ⟨adjustToks_of_sorted_error (by decide) (by decide) rfl, composeSpec_of_sorted (by decide) (by decide)⟩

/-! ### what the code does, exactly (duplicated keys included) -/

/-- For all maps with coordinates below `2^30`: the result is the position-sort of one token for every
(adjustment range `ra`, original range `ro`) with `ro.start < ra.end ∧ ra.start < ro.end`, ranges as
computed by `create_ranges` — empty ranges (duplicated keys) included, which is where the code leaves
the property statement (F16). -/
theorem c10_exact (o a : List Tok) (ho : coordsSmall o = true) (ha : coordsSmall a = true) :
    adjustToks o a = .ok (sortToks
      ((createRanges srcKey a).flatMap fun ra => (createRanges dstKey o).filterMap fun ro =>
        if posLt ro.start ra.stop && posLt ra.start ro.stop then
          some { ro.value with dl := (posMax ro.start ra.start).1 + ra.value.dl - ra.value.sl,
                               dc := (posMax ro.start ra.start).2 + ra.value.dc - ra.value.sc }
        else none)) :=
  adjustToks_exact o a ho ha

/-- soundness: every token of the result comes from an original token `ro.value` and an adjustment
token `ra.value` whose ranges overlap, sits at the later of the two starts moved by the adjustment
token's generated-minus-original displacement (exact arithmetic), and carries the original token's
source, original position, name and range flag -/
theorem c10_sound (o a ts : List Tok) (ho : coordsSmall o = true) (ha : coordsSmall a = true)
    (h : adjustToks o a = .ok ts) :
    ∀ t ∈ ts, ∃ ro ∈ createRanges dstKey o, ∃ ra ∈ createRanges srcKey a,
      ro.value ∈ o ∧ ra.value ∈ a ∧ ro.start = dstKey ro.value ∧ ra.start = srcKey ra.value ∧
      posLt ro.start ra.stop = true ∧ posLt ra.start ro.stop = true ∧
      t.dl = (posMax ro.start ra.start).1 + ra.value.dl - ra.value.sl ∧
      t.dc = (posMax ro.start ra.start).2 + ra.value.dc - ra.value.sc ∧
      ra.value.sl ≤ (posMax ro.start ra.start).1 ∧ ra.value.sc ≤ (posMax ro.start ra.start).2 ∧
      t.sl = ro.value.sl ∧ t.sc = ro.value.sc ∧ t.src = ro.value.src ∧ t.name = ro.value.name ∧
      t.rng = ro.value.rng := by
  rw [adjustToks_exact o a ho ha] at h
  cases h
  intro t ht
  have ht' : t ∈ sweepList o a := (List.mergeSort_perm _ _).mem_iff.mp ht
  unfold sweepList at ht'
  obtain ⟨ra, hra, hin⟩ := List.mem_flatMap.mp ht'
  obtain ⟨ro, hro, hone⟩ := List.mem_filterMap.mp hin
  unfold one at hone
  split at hone
  · rename_i hov
    simp only [ovb, Bool.and_eq_true] at hov
    cases hone
    obtain ⟨hv1, hs1, _⟩ := createRanges_mem dstKey o ro hro
    obtain ⟨hv2, hs2, he2⟩ := createRanges_mem srcKey a ra hra
    obtain ⟨q1, q2, _⟩ := posMax_on_line he2 hov.1
    have hsk : ra.start.1 = ra.value.sl ∧ ra.start.2 = ra.value.sc := by rw [hs2]; exact ⟨rfl, rfl⟩
    refine ⟨ro, hro, ra, hra, hv1, hv2, hs1, hs2, hov.1, hov.2, rfl, rfl, ?_, ?_, rfl, rfl, rfl, rfl, rfl⟩
    · omega
    · omega
  · cases hone

/-! ### agreement with the specification (distinct keys) -/

/-- `c10_eq_spec`: with distinct keys on each side and small coordinates the model succeeds and its
result is a permutation of the specification's (both ordered by generated position) -/
theorem c10_eq_spec (o a : List Tok)
    (hdo : distinctKeys dstKey o = true) (hda : distinctKeys srcKey a = true)
    (ho : coordsSmall o = true) (ha : coordsSmall a = true) :
    ∃ ts, adjustToks o a = .ok ts ∧ ts.Perm (composeSpec o a) ∧
      SortedByPos ts ∧ SortedByPos (composeSpec o a) := by
  refine ⟨_, adjustToks_exact o a ho ha, ?_, sortToks_sorted _, sortToks_sorted _⟩
  have hp := sweepList_perm_composePairs o a ((distinctKeys_iff _ _).mp hdo) ((distinctKeys_iff _ _).mp hda)
    ((coordsSmall_iff _).mp ho) ((coordsSmall_iff _).mp ha)
  unfold composeSpec sortToks
  exact (List.mergeSort_perm _ _).trans (hp.trans (List.mergeSort_perm _ _).symm)

/-- equality after any canonical sort (a total, transitive, antisymmetric order on tokens, such as the
driver's / harness's "position, then all fields") -/
theorem c10_eq_spec_canonical (o a : List Tok) (le : Tok → Tok → Bool)
    (htrans : ∀ x y z, le x y = true → le y z = true → le x z = true)
    (htotal : ∀ x y, (le x y || le y x) = true)
    (hanti : ∀ x y, le x y = true → le y x = true → x = y)
    (hdo : distinctKeys dstKey o = true) (hda : distinctKeys srcKey a = true)
    (ho : coordsSmall o = true) (ha : coordsSmall a = true) :
    ∃ ts, adjustToks o a = .ok ts ∧ ts.mergeSort le = (composeSpec o a).mergeSort le := by
  obtain ⟨ts, h, hp, _, _⟩ := c10_eq_spec o a hdo hda ho ha
  refine ⟨ts, h, ?_⟩
  apply List.Perm.eq_of_pairwise (le := fun x y => le x y = true)
  · intro x y _ _ h1 h2; exact hanti x y h1 h2
  · exact List.pairwise_mergeSort htrans htotal _
  · exact List.pairwise_mergeSort htrans htotal _
  · exact (List.mergeSort_perm _ _).trans (hp.trans (List.mergeSort_perm _ _).symm)

/-- when no two demanded tokens share a generated position the result *is* the specification's -/
theorem c10_eq_spec_exact (o a : List Tok)
    (hdo : distinctKeys dstKey o = true) (hda : distinctKeys srcKey a = true)
    (ho : coordsSmall o = true) (ha : coordsSmall a = true)
    (hpos : (composeSpec o a).Pairwise (fun x y => Tok.pos x ≠ Tok.pos y)) :
    adjustToks o a = .ok (composeSpec o a) := by
  obtain ⟨ts, h, hp, hs1, hs2⟩ := c10_eq_spec o a hdo hda ho ha
  rw [h]
  congr 1
  apply List.Perm.eq_of_pairwise (le := fun x y => posLe (Tok.pos x) (Tok.pos y) = true) _ hs1 hs2 hp
  intro x y hx hy h1 h2
  have hx' : x ∈ composeSpec o a := hp.mem_iff.mp hx
  have heq : Tok.pos x = Tok.pos y := posLe_antisymm h1 h2
  exact pos_injective_of_pairwise hpos x hx' y hy heq

/-- completeness, exactly once: every pair of an original and an adjustment stretch with a non-empty
overlap contributes its token, and the result holds each token value exactly as often as the pairs
demand it (so: one token per overlapping pair, none else) -/
theorem c10_complete_once (o a ts : List Tok)
    (hdo : distinctKeys dstKey o = true) (hda : distinctKeys srcKey a = true)
    (ho : coordsSmall o = true) (ha : coordsSmall a = true) (h : adjustToks o a = .ok ts) :
    (∀ so ∈ stretches dstKey o, ∀ sa ∈ stretches srcKey a, ∀ t, composeOne so sa = some t → t ∈ ts) ∧
    (∀ t, ts.count t = (composePairs o a).count t) ∧
    ts.length = (composePairs o a).length := by
  obtain ⟨ts', h', hp, _, _⟩ := c10_eq_spec o a hdo hda ho ha
  rw [h] at h'; cases h'
  have hp' : ts.Perm (composePairs o a) := hp.trans (List.mergeSort_perm _ _)
  refine ⟨?_, fun t => hp'.count_eq t, hp'.length_eq⟩
  intro so hso sa hsa t ht
  apply hp'.mem_iff.mpr
  unfold composePairs
  exact List.mem_flatMap.mpr ⟨sa, hsa, List.mem_filterMap.mpr ⟨so, hso, ht⟩⟩

/-- the specification's displacement never truncates: an overlap starts on the adjustment token's line
at or after its column (so `start + dst - src` is exact in `Nat`) -/
theorem c10_spec_no_truncation (key : Tok → Pos) (o a : List Tok) :
    ∀ so ∈ stretches key o, ∀ sa ∈ stretches srcKey a, ∀ t, composeOne so sa = some t →
      sa.2.2.sl = (posMax so.1 sa.1).1 ∧ sa.2.2.sc ≤ (posMax so.1 sa.1).2 := by
  intro so _ sa hsa t ht
  simp only [composeOne] at ht
  split at ht
  · rename_i hlt
    obtain ⟨p, hp, rfl⟩ := List.mem_map.mp hsa
    simp only at hlt ⊢
    rw [posMax_lt_iff, lt_posMin_iff, lt_posMin_iff] at hlt
    -- the adjustment stretch ends on its own line
    have hend : posLe (stretchEnd srcKey a p.2 p.1) ((srcKey p.1).1, NONE) = true := by
      unfold stretchEnd
      generalize ((a.zipIdx.filter fun q => follows srcKey p.1 p.2 q.1 q.2).map fun q => srcKey q.1) = l
      have : ∀ (l : List Pos) (e : Pos), posLe (l.foldl posMin e) e = true := by
        intro l
        induction l with
        | nil => intro e; exact posLe_refl _
        | cons x l ih => intro e; exact posLe_trans (ih _) (posMin_le_left _ _)
      exact this l _
    have h1 := hlt.1.2
    have h2 := hlt.2.2
    unfold posMax
    by_cases hc : posLe so.1 (srcKey p.1) = true
    · simp only [hc, ↓reduceIte]; exact ⟨rfl, Nat.le_refl _⟩
    · have hf : posLe so.1 (srcKey p.1) = false := by simpa using hc
      simp only [hf, Bool.false_eq_true, ↓reduceIte]
      have h3 : posLt (srcKey p.1) so.1 = true := (posLe_false_iff _ _).mp hf
      rw [posLe_iff] at hend; rw [posLt_iff] at h1 h3
      simp only [] at hend
      have e1 : (srcKey p.1).1 = p.1.sl := rfl
      have e2 : (srcKey p.1).2 = p.1.sc := rfl
      omega
  · cases ht

/-! ### finding F16: duplicated keys -/

/-- two original tokens at one position under a covering adjustment stretch: the code keeps both, the
property allows one (the first duplicate's stretch is empty) -/
theorem c10_f16_original_dup :
    adjustToks [⟨0, 2, 1, 2, 0, 0, false⟩, ⟨0, 2, 2, 9, 1, 1, false⟩] [⟨0, 0, 0, 0, 0, NONE, false⟩]
      = .ok [⟨0, 2, 1, 2, 0, 0, false⟩, ⟨0, 2, 2, 9, 1, 1, false⟩] ∧
    composeSpec [⟨0, 2, 1, 2, 0, 0, false⟩, ⟨0, 2, 2, 9, 1, 1, false⟩] [⟨0, 0, 0, 0, 0, NONE, false⟩]
      = [⟨0, 2, 2, 9, 1, 1, false⟩] ∧
    -- alignment dependence: an adjustment stretch starting exactly at the duplicates drops the first
    adjustToks [⟨0, 2, 1, 2, 0, 0, false⟩, ⟨0, 2, 2, 9, 1, 1, false⟩] [⟨0, 2, 0, 2, 0, NONE, false⟩]
      = .ok [⟨0, 2, 2, 9, 1, 1, false⟩] :=
  ⟨adjustToks_of_sorted (by decide) (by decide) rfl (by decide),
   composeSpec_of_sorted (by decide) (by decide),
   adjustToks_of_sorted (by decide) (by decide) rfl (by decide)⟩

/-- two adjustment tokens at one original position inside an original stretch: the code emits a token
for each, the property allows one -/
theorem c10_f16_adjustment_dup :
    adjustToks [⟨0, 2, 1, 2, 0, 0, false⟩] [⟨1, 0, 0, 4, 0, NONE, false⟩, ⟨2, 0, 0, 4, 0, NONE, false⟩]
      = .ok [⟨1, 0, 1, 2, 0, 0, false⟩, ⟨2, 0, 1, 2, 0, 0, false⟩] ∧
    composeSpec [⟨0, 2, 1, 2, 0, 0, false⟩] [⟨1, 0, 0, 4, 0, NONE, false⟩, ⟨2, 0, 0, 4, 0, NONE, false⟩]
      = [⟨2, 0, 1, 2, 0, 0, false⟩] :=
  ⟨adjustToks_of_sorted (by decide) (by decide) rfl (by decide),
   composeSpec_of_sorted (by decide) (by decide)⟩

/-- `distinctKeys` is necessary in `c10_eq_spec`: on the two minimal duplicated-key inputs (small
coordinates, the other side's keys distinct) the model's result is not a permutation of the
specification's — it is one token longer -/
theorem c10_dup_counterexample :
    (∃ o a ts, distinctKeys dstKey o = false ∧ distinctKeys srcKey a = true ∧ coordsSmall o = true ∧
      coordsSmall a = true ∧ adjustToks o a = .ok ts ∧ ¬ ts.Perm (composeSpec o a)) ∧
    (∃ o a ts, distinctKeys dstKey o = true ∧ distinctKeys srcKey a = false ∧ coordsSmall o = true ∧
      coordsSmall a = true ∧ adjustToks o a = .ok ts ∧ ¬ ts.Perm (composeSpec o a)) := by
  constructor
  · refine ⟨_, _, _, by decide, by decide, by decide, by decide, c10_f16_original_dup.1, ?_⟩
    rw [c10_f16_original_dup.2.1]
    exact not_perm_of_length (by decide)
  · refine ⟨_, _, _, by decide, by decide, by decide, by decide, c10_f16_adjustment_dup.1, ?_⟩
    rw [c10_f16_adjustment_dup.2]
    exact not_perm_of_length (by decide)

/-! ### the hypotheses are satisfiable by non-trivial values -/

/-- the worked example of the doc comment in types.rs (restricted to the tokens of line 8) plus a
second adjustment token that splits an original stretch -/
def exO : List Tok := [⟨8, 28, 102, 35, 0, NONE, false⟩, ⟨8, 40, 102, 50, 0, 1, false⟩, ⟨9, 10, 103, 12, 1, NONE, true⟩]
def exA : List Tok := [⟨17, 23, 8, 30, 0, NONE, false⟩, ⟨20, 0, 8, 45, 0, NONE, false⟩, ⟨3, 3, 9, 0, 0, NONE, false⟩]

example : distinctKeys dstKey exO = true ∧ distinctKeys srcKey exA = true ∧
    coordsSmall exO = true ∧ coordsSmall exA = true := by decide

example : adjustToks exO exA = .ok (composeSpec exO exA) ∧
    composeSpec exO exA = [⟨3, 13, 103, 12, 1, NONE, true⟩, ⟨17, 23, 102, 35, 0, NONE, false⟩,
      ⟨17, 33, 102, 50, 0, 1, false⟩, ⟨20, 0, 102, 50, 0, 1, false⟩] := by
  -- the tokens in the order the sweep pushes them (= the order of the specification's comprehension)
  have hs : sortToks [⟨17, 23, 102, 35, 0, NONE, false⟩, ⟨17, 33, 102, 50, 0, 1, false⟩,
      ⟨20, 0, 102, 50, 0, 1, false⟩, ⟨3, 13, 103, 12, 1, NONE, true⟩]
      = [⟨3, 13, 103, 12, 1, NONE, true⟩, ⟨17, 23, 102, 35, 0, NONE, false⟩,
      ⟨17, 33, 102, 50, 0, 1, false⟩, ⟨20, 0, 102, 50, 0, 1, false⟩] :=
    sortToks_eq_of_perm_sorted (by decide) (by decide) (by decide)
  have h : composeSpec exO exA = [⟨3, 13, 103, 12, 1, NONE, true⟩, ⟨17, 23, 102, 35, 0, NONE, false⟩,
      ⟨17, 33, 102, 50, 0, 1, false⟩, ⟨20, 0, 102, 50, 0, 1, false⟩] := by
    unfold composeSpec
    rw [show composePairs exO exA = [⟨17, 23, 102, 35, 0, NONE, false⟩, ⟨17, 33, 102, 50, 0, 1, false⟩,
      ⟨20, 0, 102, 50, 0, 1, false⟩, ⟨3, 13, 103, 12, 1, NONE, true⟩] from by decide]
    exact hs
  refine ⟨?_, h⟩
  rw [h, adjustToks_of_sorted' (raw := [⟨17, 23, 102, 35, 0, NONE, false⟩, ⟨17, 33, 102, 50, 0, 1, false⟩,
      ⟨20, 0, 102, 50, 0, 1, false⟩, ⟨3, 13, 103, 12, 1, NONE, true⟩]) (by decide) (by decide) rfl, hs]

example : ∃ m', adjust { tokens := exO, sources := [[97]], names := [[98], [99]] } { tokens := exA } = .ok m' :=
  c10_safe _ _ (by decide) (by decide)

end SmVerif.C10
