import SmVerif.Model.Detect
import SmVerif.Proofs.DetectLines
import SmVerif.Proofs.DetectTrim
import SmVerif.Proofs.DetectB64
import SmVerif.Proofs.DetectB64Spec
/-
C18 — maps can be found from generated files and embedded as data URLs.
Property theorems only; helper lemmas are in SmVerif/Proofs/Detect{Lines,Trim,B64,B64Spec}.lean.

Texts, URLs and serialised maps are byte strings (`List Nat`); texts hold valid UTF-8 (see the header
of Model/Detect.lean).  `Spec.pHash` / `Spec.pAt` are the two comment forms written out in the
specification; the model uses the literals regenerated from detector.rs (`Consts.refPrefixes`,
`Consts.refSkip`, `Consts.refLegacyMarker`) and the data-URL preambles regenerated from types.rs and
decoder.rs — the `decide`d obligations below are what ties the two together.
-/
namespace SmVerif.C18
open SmVerif SmVerif.Detect SmVerif.Detect.Spec

/-- the line begins with `//# sourceMappingURL=` or `//@ sourceMappingURL=` -/
def Begins (l : Bytes) : Prop := pHash <+: l ∨ pAt <+: l

theorem begins_iff (l : Bytes) : begins l = true ↔ Begins l := by
  simp [begins, Begins, List.isPrefixOf_iff_prefix]

/-- **The lines of a text** (`BufRead::lines`).  Every text is, in exactly one way, a sequence of pieces
without `\n`, each followed by `\n`, and a last piece without `\n`; its lines are the terminated pieces
without one trailing `\r`, and then the last piece if it is not empty (so: no empty line after a final
newline, a `\r` before end-of-text stays). -/
theorem c18_lines (text : Bytes) :
    ∃ ps last, (∀ p ∈ ps, 10 ∉ p) ∧ 10 ∉ last ∧ text = joinNl ps last
      ∧ lines text = ps.map stripCr ++ (if last = [] then [] else [last])
      ∧ ∀ ps' last', (∀ p ∈ ps', 10 ∉ p) → 10 ∉ last' → text = joinNl ps' last' → ps' = ps ∧ last' = last := by
  obtain ⟨ps, last, hs, hp, hl, ht⟩ := splitNl_decomp text
  refine ⟨ps, last, hp, hl, ht, ?_, ?_⟩
  · rw [lines_eq_specLines]
    simp only [specLines, hs]
    simp
  · intro ps' last' hp' hl' ht'
    exact joinNl_unique ps' ps last' last hp' hl' hp hl (by rw [← ht', ← ht])

/-- **Discovery = specification, for every text**: the result is never an error (the `[21..]` slice
cannot panic) and it is the first line that begins with one of the two forms, with the rest of that line
trimmed as URL, flagged legacy for the `@` form (`Spec.specLocate`, written with `find?` over the
declaratively split lines). -/
theorem c18_locate (text : Bytes) : locateReference text = .ok (specLocate text) := by
  unfold locateReference specLocate
  rw [locateLoop_eq, lines_eq_specLines]

/-- the same without any executable function on the right-hand side: `r` is returned iff the lines
split as `pre ++ l :: post` with no line of `pre` beginning with a comment form, `l` beginning with one,
and `r` the reference read off `l` -/
theorem c18_first_line (text : Bytes) (r : Ref) :
    locateReference text = .ok (some r) ↔
      ∃ pre l post, lines text = pre ++ l :: post ∧ (∀ x ∈ pre, ¬ Begins x) ∧ Begins l ∧ r = refOf l := by
  unfold locateReference
  rw [locateLoop_eq]
  constructor
  · intro h
    have h' : ((lines text).find? begins).map refOf = some r := by
      injection h
    rcases hf : (lines text).find? begins with _ | l
    · rw [hf] at h'; simp at h'
    · rw [hf] at h'
      obtain ⟨hb, pre, post, hsplit, hpre⟩ := List.find?_eq_some_iff_append.mp hf
      refine ⟨pre, l, post, hsplit, ?_, (begins_iff l).mp hb, ?_⟩
      · intro x hx hbx
        have := hpre x hx
        rw [(begins_iff x).mpr hbx] at this
        simp at this
      · simpa using h'.symm
  · rintro ⟨pre, l, post, hsplit, hpre, hl, rfl⟩
    have hf : (lines text).find? begins = some l := by
      apply List.find?_eq_some_iff_append.mpr
      refine ⟨(begins_iff l).mpr hl, pre, post, hsplit, ?_⟩
      intro x hx
      have : ¬ begins x = true := fun h => hpre x hx ((begins_iff x).mp h)
      simpa using this
    rw [hf]; rfl

/-- nothing is returned iff no line begins with a comment form -/
theorem c18_none_iff (text : Bytes) :
    locateReference text = .ok none ↔ ∀ l ∈ lines text, ¬ Begins l := by
  unfold locateReference
  rw [locateLoop_eq]
  constructor
  · intro h l hl hb
    have h' : ((lines text).find? begins).map refOf = none := by injection h
    have hn : (lines text).find? begins = none := by simpa using h'
    have := List.find?_eq_none.mp hn l hl
    exact this ((begins_iff l).mpr hb)
  · intro h
    have hn : (lines text).find? begins = none := by
      apply List.find?_eq_none.mpr
      intro l hl hb
      exact h l hl ((begins_iff l).mp hb)
    rw [hn]; rfl

/-- **Obligation over the regenerated literals**: the code tests exactly the two forms, both have the
length of the literal `21` the code skips, and the legacy test `starts_with("//@")` separates them.
Editing a prefix, the `21` or the marker in detector.rs breaks this `decide`. -/
theorem c18_prefix_len :
    Consts.refPrefixes = [pHash, pAt]
    ∧ (∀ p ∈ Consts.refPrefixes, p.length = Consts.refSkip)
    ∧ Consts.refLegacyMarker.isPrefixOf pAt = true ∧ Consts.refLegacyMarker.isPrefixOf pHash = false := by
  decide

/-- the reference found is legacy iff the first line beginning with a comment form begins with the
`@` form -/
theorem c18_legacy_iff (text : Bytes) :
    (∃ u, locateReference text = .ok (some (.legacy u))) ↔
      ∃ pre l post, lines text = pre ++ l :: post ∧ (∀ x ∈ pre, ¬ Begins x) ∧ pAt <+: l := by
  constructor
  · rintro ⟨u, hu⟩
    obtain ⟨pre, l, post, hs, hpre, hl, hr⟩ := (c18_first_line text _).mp hu
    refine ⟨pre, l, post, hs, hpre, ?_⟩
    by_cases hp : pAt.isPrefixOf l = true
    · exact List.isPrefixOf_iff_prefix.mp hp
    · simp [refOf, hp] at hr
  · rintro ⟨pre, l, post, hs, hpre, hl⟩
    have hp : pAt.isPrefixOf l = true := List.isPrefixOf_iff_prefix.mpr hl
    refine ⟨trim (l.drop pAt.length), (c18_first_line text _).mpr ⟨pre, l, post, hs, hpre, Or.inr hl, ?_⟩⟩
    simp [refOf, hp]

/-- **`trim`** removes White_Space characters (`wsChars`: the UTF-8 encodings of the 25 code points),
and only those, from both ends, until neither end has one -/
theorem c18_trim (s : Bytes) :
    ∃ a b : List Bytes, (∀ c ∈ a, c ∈ wsChars) ∧ (∀ c ∈ b, c ∈ wsChars)
      ∧ s = a.flatten ++ trim s ++ b.flatten
      ∧ (∀ c ∈ wsChars, ¬ c <+: trim s) ∧ (∀ c ∈ wsChars, ¬ c <:+ trim s) :=
  trim_spec s

/-- **Obligation over the regenerated preambles**: the preamble `to_data_url` writes is the first of
`decode_data_url`'s preambles that is a prefix of it, and none of them is longer.  (On the tree before
`fix: accept the data URL form that to_data_url produces` this `decide` fails: F14.) -/
theorem c18_prefix_accepted : prefixAccepted Consts.dataUrlAccepted Consts.dataUrlProduced = true := by
  decide

/-- RFC 4648 round trip for every byte string, whatever its length modulo 3 -/
theorem c18_base64_roundtrip (bs : Bytes) (h : IsBytes bs) : b64Decode (b64Encode bs) = .ok bs :=
  b64_roundtrip bs h

/-- the codec's encoder is RFC 4648 §4 read as a bit string (bytes most significant bit first, groups
of six bits zero-padded, alphabet lookup, `=` up to a multiple of four): `Spec.specB64` -/
theorem c18_base64_is_rfc4648 (bs : Bytes) (h : IsBytes bs) : b64Encode bs = specB64 bs :=
  b64Encode_eq_spec bs h

/-- what `to_data_url` writes is a base64 `application/json` data URL of the serialised map (the
`spec` column of `det.dataurl`) -/
theorem c18_data_url_wellformed (bs : Bytes) (h : IsBytes bs) : isDataUrlOf (toDataUrl bs) bs = true := by
  have hp : Consts.dataUrlProduced ∈ dataPrefixes := by decide
  simp only [isDataUrlOf, List.any_eq_true, beq_iff_eq]
  exact ⟨Consts.dataUrlProduced, hp, by rw [toDataUrl, b64Encode_eq_spec bs h]⟩

/-- **The data URL the library produces is one the library itself decodes**: for every serialised map
(every byte string) `decode_data_url` hands exactly those bytes to the JSON decoder that
`to_data_url` got from the encoder. -/
theorem c18_data_url_roundtrip (bs : Bytes) (h : IsBytes bs) : decodeDataUrl (toDataUrl bs) = .ok bs := by
  unfold decodeDataUrl toDataUrl
  rw [strip_accepted _ _ _ c18_prefix_accepted]
  exact b64_roundtrip bs h

/-- **… also when it is placed in a `sourceMappingURL` comment and discovered from there**: wherever
the comment starts a line (`pre` empty or ending in `\n`), is followed by end of text, `\n` or `\r\n`,
and no earlier line begins with a comment form, discovery returns exactly the produced URL as a
non-legacy reference, and decoding it gives the serialised map back. -/
theorem c18_embedded (pre post b : Bytes) (hb : IsBytes b)
    (hpre : pre = [] ∨ ∃ p, pre = p ++ [10])
    (hno : ∀ l ∈ lines pre, ¬ Begins l)
    (hpost : post = [] ∨ (∃ t, post = 10 :: t) ∨ (∃ t, post = 13 :: 10 :: t)) :
    locateReference (pre ++ (pHash ++ toDataUrl b) ++ post) = .ok (some (.ref (toDataUrl b)))
      ∧ decodeDataUrl (toDataUrl b) = .ok b := by
  refine ⟨?_, c18_data_url_roundtrip b hb⟩
  have hplain := toDataUrl_plain b
  obtain ⟨h1, h2, h3⟩ := refLine_facts (toDataUrl b) hplain
  obtain ⟨rest, hrest⟩ := lines_embed pre (pHash ++ toDataUrl b) post h1 h2 h3 hpre hpost
  apply (c18_first_line _ _).mpr
  refine ⟨lines pre, pHash ++ toDataUrl b, rest, hrest, hno, Or.inl (List.prefix_append _ _), ?_⟩
  have hat : pAt.isPrefixOf (pHash ++ toDataUrl b) = false := by
    rw [isPrefixOf_append_of_le _ _ _ (by decide)]; decide
  simp only [refOf, hat, Bool.false_eq_true, ↓reduceIte, List.drop_left]
  rw [trim_plain _ hplain]

/-- **Every serialised map, index or Hermes map is recognised**: for whatever `as_raw_sourcemap`
fills in (any regular map, any index, any Hermes map), the keys serde writes (regenerated field table of
`RawSourceMap`), read back into `MinimalRawSourceMap` (regenerated field table), satisfy
`is_sourcemap_common`. -/
theorem c18_detects_serialised (d : Serialisable) : isSourcemapDoc (emit (asRaw d)) = true :=
  detects_serialised d

/-! ### non-vacuity and concrete checks -/

-- "a\n//# sourceMappingURL=x\r\n" has the lines "a" and "//# sourceMappingURL=x"
example : lines ([97, 10] ++ pHash ++ [120, 13, 10]) = [[97], pHash ++ [120]] := by decide
-- c18_embedded's hypotheses are met by pre = "a\n", post = "\r\n", b = "{}"
example : IsBytes [123, 125] := by unfold IsBytes; decide
example : ([97, 10] : Bytes) = [] ∨ ∃ p, ([97, 10] : Bytes) = p ++ [10] := Or.inr ⟨[97], rfl⟩
example : ∀ l ∈ lines [97, 10], ¬ Begins l := by
  intro l hl
  have : l = [97] := by simpa [lines, linesAux, stripCr] using hl
  subst this
  rw [← begins_iff]; decide
-- the URL of "{}" and its way back
example : toDataUrl [123, 125] = Consts.dataUrlProduced ++ [101, 51, 48, 61] := by decide
example : b64Encode [104, 105, 33] = [97, 71, 107, 104] := by decide   -- "hi!" -> "aGkh"
example : b64Encode [104] = [97, 65, 61, 61] := by decide              -- "h" -> "aA=="
-- an index map is recognised through `sections` alone
example : emit (asRaw (.index none)) = [(fVersion, true), (fSources, false), (fSections, true)] := by decide
-- the RFC 4648 alphabet of the codec is the alphabet table of vlq.rs
example : (List.range 64).map encChar = Consts.b64Chars := by decide
-- trimming: " \t x\u{3000}" -> "x"
example : trim [32, 9, 32, 120, 0xE3, 0x80, 0x80] = [120] := by decide
-- the model's base64 agrees with the bit-string reading of RFC 4648 on a sample
example : b64Encode [0, 255, 16, 131] = specB64 [0, 255, 16, 131] := by decide

end SmVerif.C18
