//! Counting allocator: tracks live and peak heap bytes so that a case can report allocation
//! out of proportion to its input (C05).
use std::alloc::{GlobalAlloc, Layout, System};
use std::sync::atomic::{AtomicUsize, Ordering};

pub struct Counting;
static LIVE: AtomicUsize = AtomicUsize::new(0);
static PEAK: AtomicUsize = AtomicUsize::new(0);

unsafe impl GlobalAlloc for Counting {
    unsafe fn alloc(&self, l: Layout) -> *mut u8 {
        let p = System.alloc(l);
        if !p.is_null() {
            let live = LIVE.fetch_add(l.size(), Ordering::Relaxed) + l.size();
            PEAK.fetch_max(live, Ordering::Relaxed);
        }
        p
    }
    unsafe fn dealloc(&self, p: *mut u8, l: Layout) {
        System.dealloc(p, l);
        LIVE.fetch_sub(l.size(), Ordering::Relaxed);
    }
    unsafe fn realloc(&self, p: *mut u8, l: Layout, new: usize) -> *mut u8 {
        let q = System.realloc(p, l, new);
        if !q.is_null() {
            if new >= l.size() {
                let live = LIVE.fetch_add(new - l.size(), Ordering::Relaxed) + (new - l.size());
                PEAK.fetch_max(live, Ordering::Relaxed);
            } else {
                LIVE.fetch_sub(l.size() - new, Ordering::Relaxed);
            }
        }
        q
    }
}

#[global_allocator]
static A: Counting = Counting;

/// start a measurement: peak := live
pub fn reset_peak() {
    PEAK.store(LIVE.load(Ordering::Relaxed), Ordering::Relaxed);
}
/// bytes allocated above the level at `reset_peak`
pub fn peak_since_reset(base: usize) -> usize {
    PEAK.load(Ordering::Relaxed).saturating_sub(base)
}
pub fn live() -> usize {
    LIVE.load(Ordering::Relaxed)
}
