//! Correspondence harness: interprets case lines against the real `sourcemap` crate (built from
//! /repo's working tree, `--cfg sourcemap_verif`, overflow checks on) and prints one result line
//! per case.  The Lean driver consumes the same file; `/verif/check` diffs the two streams.
//!
//! usage: smv <casefile> [--skip N]      (results on stdout)
//! A case that runs longer than the watchdog limit prints `hang` and the process exits with 86;
//! the runner restarts after that case.
use std::io::{BufRead, Write};
use std::panic::{catch_unwind, AssertUnwindSafe};
use std::sync::atomic::{AtomicU64, AtomicUsize, Ordering};
use std::sync::{Arc, Mutex};

mod alloc;
mod ops;
mod util;

pub static PROGRESS: AtomicU64 = AtomicU64::new(0);
pub static STARTED_MS: AtomicU64 = AtomicU64::new(0);

pub fn now_ms_pub() -> u64 { now_ms() }
fn now_ms() -> u64 {
    use std::time::{SystemTime, UNIX_EPOCH};
    SystemTime::now().duration_since(UNIX_EPOCH).unwrap().as_millis() as u64
}

fn main() {
    let args: Vec<String> = std::env::args().collect();
    let path = args.get(1).expect("case file");
    let mut skip = 0usize;
    let mut limit_ms = 10_000u64;
    let mut i = 2;
    while i < args.len() {
        match args[i].as_str() {
            "--skip" => { skip = args[i + 1].parse().unwrap(); i += 2; }
            "--limit-ms" => { limit_ms = args[i + 1].parse().unwrap(); i += 2; }
            _ => { i += 1; }
        }
    }
    if std::env::var_os("SMV_PANIC_MSG").is_none() {
        std::panic::set_hook(Box::new(|_| {}));
    }
    let out = Arc::new(Mutex::new(std::io::BufWriter::with_capacity(1 << 20, std::io::stdout())));
    // watchdog
    {
        let out = out.clone();
        STARTED_MS.store(now_ms(), Ordering::SeqCst);
        std::thread::spawn(move || loop {
            std::thread::sleep(std::time::Duration::from_millis(200));
            let st = STARTED_MS.load(Ordering::SeqCst);
            if st != 0 && now_ms().saturating_sub(st) > limit_ms {
                let mut o = out.lock().unwrap_or_else(|e| e.into_inner());
                let _ = writeln!(o, "hang");
                let _ = o.flush();
                std::process::exit(86);
            }
        });
    }
    let f = std::fs::File::open(path).expect("open case file");
    let rdr = std::io::BufReader::new(f);
    let mut n = 0usize;
    let done = AtomicUsize::new(0);
    for line in rdr.lines() {
        let line = line.expect("utf8 case line");
        let l = line.trim();
        if l.is_empty() || l.starts_with('#') {
            continue;
        }
        n += 1;
        if n <= skip {
            continue;
        }
        let toks: Vec<&str> = l.split(' ').collect();
        STARTED_MS.store(now_ms(), Ordering::SeqCst);
        alloc::reset_peak();
        let res = catch_unwind(AssertUnwindSafe(|| ops::dispatch(&toks)));
        STARTED_MS.store(0, Ordering::SeqCst);
        let s = match res {
            Ok(s) => s,
            Err(_) => "err panic".to_string(),
        };
        let mut o = out.lock().unwrap_or_else(|e| e.into_inner());
        let _ = writeln!(o, "{}", s);
        done.fetch_add(1, Ordering::Relaxed);
    }
    let mut o = out.lock().unwrap_or_else(|e| e.into_inner());
    let _ = o.flush();
}
