// Reproduces the defects F1..F15 of DESIGN.md section 8 on the real crate (one line each).
use sourcemap::*;
use std::panic::catch_unwind;
fn p<T: std::fmt::Debug>(name: &str, f: impl FnOnce() -> T + std::panic::UnwindSafe) {
    match catch_unwind(f) { Ok(v) => println!("{name}: {:?}", v), Err(_) => println!("{name}: PANIC") }
}
fn main() {
    std::panic::set_hook(Box::new(|_| {}));
    p("F1 vlq A!A", || vlq::parse_vlq_segment("A!A").map_err(|e| e.to_string()));
    p("F2 src delta -2^32", || {
        let n = vlq::generate_vlq_segment(&[0, -4294967296, 0, 0]).unwrap();
        let js = format!(r#"{{"version":3,"sources":["a"],"names":[],"mappings":"AAAA,{n}"}}"#);
        SourceMap::from_slice(js.as_bytes()).map(|m| m.get_token_count()).map_err(|e| e.to_string())
    });
    p("F3 range first on line 1", || {
        let toks = vec![RawToken{dst_line:0,dst_col:0,src_line:0,src_col:0,src_id:0,name_id:!0,is_range:false},
                        RawToken{dst_line:1,dst_col:0,src_line:1,src_col:0,src_id:0,name_id:!0,is_range:true}];
        let sm = SourceMap::new(None, toks, vec![], vec!["a".into()], None);
        let mut out = vec![]; sm.to_writer(&mut out).unwrap();
        let sm2 = SourceMap::from_slice(&out).unwrap();
        (String::from_utf8(out).unwrap(), sm2.tokens().map(|t| t.is_range()).collect::<Vec<_>>())
    });
    p("F4 17th token range", || {
        let toks = (0..17).map(|i| RawToken{dst_line:0,dst_col:i,src_line:0,src_col:i,src_id:0,name_id:!0,is_range:i==16}).collect();
        let sm = SourceMap::new(None, toks, vec![], vec!["a".into()], None);
        let mut out = vec![]; sm.to_writer(&mut out).unwrap(); String::from_utf8(out).unwrap()
    });
    p("F5 dup before range", || {
        let t = |c, r| RawToken{dst_line:0,dst_col:c,src_line:0,src_col:c,src_id:0,name_id:!0,is_range:r};
        let sm = SourceMap::new(None, vec![t(0,false), t(0,false), t(5,true), t(9,false)], vec![], vec!["a".into()], None);
        let mut out = vec![]; sm.to_writer(&mut out).unwrap();
        let sm2 = SourceMap::from_slice(&out).unwrap();
        sm2.tokens().map(|t| (t.get_dst_col(), t.is_range())).collect::<Vec<_>>()
    });
    p("F6 range lookup from later line", || {
        let sm = SourceMap::new(None, vec![RawToken{dst_line:0,dst_col:10,src_line:0,src_col:7,src_id:0,name_id:!0,is_range:true}], vec![], vec!["a".into()], None);
        sm.lookup_token(1, 3).map(|t| t.get_src())
    });
    p("F7 flatten big col offset", || {
        let js = r#"{"version":3,"sections":[{"offset":{"line":0,"column":4294967295},"map":{"version":3,"sources":["a"],"names":[],"mappings":"CAAA"}}]}"#;
        SourceMapIndex::from_slice(js.as_bytes()).unwrap().flatten().map(|m| m.get_token_count()).map_err(|e| e.to_string())
    });
    p("F8 hermes src_line max", || {
        let n = vlq::generate_vlq_segment(&[0, 0, 4294967295, 0]).unwrap();
        let js = format!(r#"{{"version":3,"sources":["a"],"names":[],"mappings":"{n}","x_facebook_sources":[[{{"names":["f"],"mappings":"AAA"}}]]}}"#);
        let h = SourceMapHermes::from_slice(js.as_bytes()).unwrap();
        h.get_original_function_name(0).map(|s| s.to_string())
    });
    p("F9 hermes rewrite short metadata", || {
        let js = r#"{"version":3,"sources":["a","b","c"],"names":[],"mappings":"AEAA","x_facebook_sources":[[{"names":["f"],"mappings":"AAA"}]]}"#;
        let h = SourceMapHermes::from_slice(js.as_bytes()).unwrap();
        h.rewrite(&RewriteOptions::default()).map(|m| m.get_source_count()).map_err(|e| e.to_string())
    });
    p("F10 get_line_slice col+span overflow", || {
        SourceView::new("abcdef".into()).get_line_slice(0, 2, u32::MAX).map(|s| s.to_string())
    });
    p("F12 non-ascii identifier", || {
        let sm = SourceMap::new(None, vec![RawToken{dst_line:0,dst_col:0,src_line:0,src_col:0,src_id:0,name_id:0,is_range:false}], vec!["n".into()], vec!["a".into()], None);
        let sv = SourceView::new("é ".into());
        sm.get_original_function_name(0, 0, "é", &sv).map(|s| s.to_string())
    });
    p("F13 glb index (inexact lookup, name `function`)", || {
        let t = |c, n| RawToken{dst_line:0,dst_col:c,src_line:0,src_col:c,src_id:0,name_id:n,is_range:false};
        let sm = SourceMap::new(None, vec![t(0,0), t(9,1)], vec!["n0".into(),"n1".into()], vec!["a".into()], None);
        let sv = SourceView::new("function function(){}".into());
        (sm.get_original_function_name(0, 3, "function", &sv).map(|s| s.to_string()),
         sm.get_original_function_name(0, 0, "function", &sv).map(|s| s.to_string()))
    });
    p("F14 own data url", || {
        let sm = SourceMap::new(None, vec![], vec![], vec![], None);
        decode_data_url(&sm.to_data_url().unwrap()).map(|_| "ok").map_err(|e| e.to_string())
    });
    p("F15 relpath", || make_relative_path("/foo/a.js", "/foo/bar/baz.map"));
}
