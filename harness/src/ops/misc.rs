//! relpath (C19)
use crate::util::*;

pub fn run(t: &[&str]) -> String {
    match t[0] {
        "relpath" => {
            let (Some(b), Some(g)) = (hex_str(t[1]), hex_str(t[2])) else { return "skip".into() };
            format!("ok {}", to_hex(sourcemap::make_relative_path(&b, &g).as_bytes()))
        }
        _ => "bad-op".into(),
    }
}
