//! sv.seq / sv.corr (C15): a sequence of requests on ONE SourceView, results in order.
//!
//! `sv.seq <text-hex> <requests>`
//!   requests: `,`-list of `g<idx>` get_line, `c` line_count, `a` lines() collected,
//!             `s<line>:<col>:<span>` get_line_slice
//! output: `ok <results ,>`: a line is `l<hex>` (`l` alone = empty line), `-` = None, a count is decimal,
//!         `a` is `[l..../l....]`.
//! `sv.corr` is the same op; the driver gives no specification for it (pure model correspondence).
use crate::util::*;
use sourcemap::SourceView;

fn show_line(l: Option<&str>) -> String {
    match l {
        None => "-".into(),
        Some(s) => format!("l{}", if s.is_empty() { "".into() } else { to_hex(s.as_bytes()) }),
    }
}

pub fn run(t: &[&str]) -> String {
    if t.len() != 3 {
        return "bad-op".into();
    }
    let Some(text) = hex_str(t[1]) else { return "skip".into() };
    let view = SourceView::new(text.into());
    let mut out: Vec<String> = vec![];
    for req in split_list(t[2]) {
        if let Some(idx) = req.strip_prefix('g') {
            let Ok(i) = idx.parse::<u32>() else { return "bad-op".into() };
            out.push(show_line(view.get_line(i)));
        } else if req == "c" {
            out.push(view.line_count().to_string());
        } else if req == "a" {
            let ls: Vec<String> = view.lines().map(|l| show_line(Some(l))).collect();
            out.push(format!("[{}]", ls.join("/")));
        } else if let Some(rest) = req.strip_prefix('s') {
            let f: Vec<&str> = rest.split(':').collect();
            if f.len() != 3 {
                return "bad-op".into();
            }
            let (Ok(l), Ok(c), Ok(n)) = (f[0].parse::<u32>(), f[1].parse::<u32>(), f[2].parse::<u32>()) else { return "bad-op".into() };
            out.push(show_line(view.get_line_slice(l, c, n)));
        } else {
            return "bad-op".into();
        }
    }
    // a clone taken now (the original may be partially indexed) and a clone of the fully indexed view are views of
    // their own over the same text: each answers like a fresh view
    let fresh = SourceView::new(view.source().to_string().into());
    let want_n = fresh.line_count();
    let want: Vec<String> = fresh.lines().map(|l| l.to_string()).collect();
    for stage in 0..2 {
        if stage == 1 {
            let _ = view.line_count();
        }
        let c = view.clone();
        let last = if want_n > 0 { c.get_line(want_n as u32 - 1).map(|x| x.to_string()) } else { None };
        let past = c.get_line(want_n as u32).map(|x| x.to_string());
        let got: Vec<String> = c.lines().map(|l| l.to_string()).collect();
        if c.line_count() != want_n || got != want || last != want.last().cloned() || past.is_some() {
            return format!("err clone-differs stage{}", stage);
        }
    }
    format!("ok {}", show_list(&out))
}
