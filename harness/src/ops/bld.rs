//! bld.seq / smap.seq (C13): sequences of calls on `SourceMapBuilder` and of in-place setters on a
//! `SourceMap`, through the public API only.  What is serialised is read back from the JSON text
//! with serde_json (the keys `sources`, `sourceRoot`).
use crate::util::*;
use debugid::DebugId;
use sourcemap::{SourceMap, SourceMapBuilder};
use std::sync::Arc;

/// optional string: `~` = None, `-` = Some(""), hex otherwise; Err = not UTF-8 (case skipped)
fn opt_str(s: &str) -> Result<Option<String>, ()> {
    if s == "~" {
        Ok(None)
    } else {
        hex_str(s).map(Some).ok_or(())
    }
}
fn req_str(s: &str) -> Result<String, ()> {
    hex_str(s).ok_or(())
}
fn opt_u32(s: &str) -> Option<u32> {
    if s == "~" { None } else { Some(s.parse::<u32>().unwrap_or(0)) }
}
fn u32_of(s: &str) -> u32 {
    s.parse::<u32>().unwrap_or(0)
}
fn show_opt(s: Option<&str>) -> String {
    match s {
        None => "~".into(),
        Some(x) => to_hex(x.as_bytes()),
    }
}
fn show_l(v: Vec<String>, sep: &str) -> String {
    if v.is_empty() { ".".into() } else { v.join(sep) }
}
fn show_id(i: u32) -> String {
    if i == !0 { "~".into() } else { i.to_string() }
}
/// debug id: 32 hex digits of the UUID (appendix 0)
fn parse_did(s: &str) -> Result<Option<DebugId>, ()> {
    if s == "~" {
        return Ok(None);
    }
    if s.len() != 32 {
        return Err(());
    }
    let h = format!("{}-{}-{}-{}-{}", &s[0..8], &s[8..12], &s[12..16], &s[16..20], &s[20..32]);
    h.parse::<DebugId>().map(Some).map_err(|_| ())
}
fn show_did(d: Option<DebugId>) -> String {
    match d {
        None => "~".into(),
        Some(d) => d.to_string().replace('-', ""),
    }
}
fn parse_strs(s: &str) -> Result<Vec<String>, ()> {
    if s == "." { Ok(vec![]) } else { s.split(',').map(req_str).collect() }
}
fn parse_opts(s: &str) -> Result<Vec<Option<String>>, ()> {
    if s == "." { Ok(vec![]) } else { s.split(',').map(opt_str).collect() }
}

/// what `to_writer` emits for `sources` and `sourceRoot`
fn written(sm: &SourceMap) -> Result<(Vec<String>, Option<String>, Vec<u8>), String> {
    let mut out = vec![];
    sm.to_writer(&mut out).map_err(|e| format!("err {}", err_kind(&e)))?;
    let v: serde_json::Value = serde_json::from_slice(&out).map_err(|_| "err badjson-out".to_string())?;
    let srcs = match v.get("sources") {
        Some(serde_json::Value::Array(a)) => a.iter().map(|x| x.as_str().map(|s| s.to_string()).unwrap_or_else(|| "<non-string>".into())).collect(),
        _ => vec!["<no-sources-key>".to_string()],
    };
    let root = match v.get("sourceRoot") {
        None => None,
        Some(x) => Some(x.as_str().map(|s| s.to_string()).unwrap_or_else(|| "<non-string>".into())),
    };
    Ok((srcs, root, out))
}

fn show_view(sm: &SourceMap, with_toks: bool) -> Result<String, String> {
    let (raw, root, _) = written(sm)?;
    let mut s = String::new();
    if with_toks {
        let toks: Vec<String> = sm
            .tokens()
            .map(|t| {
                format!(
                    "{}:{}:{}:{}:{}:{}:{}",
                    t.get_dst_line(), t.get_dst_col(), t.get_src_line(), t.get_src_col(), t.is_range() as u8,
                    show_opt(t.get_source()), show_opt(t.get_name())
                )
            })
            .collect();
        let toks = { let mut t = toks; let m = crate::util::order_marker(sm); if !m.is_empty() { t.push(m.to_string()); } t };
        s.push_str(&format!("T={} ", show_l(toks, ";")));
    }
    // sources through get_source(i) for every i below the count, cross-checked with the iterator
    let n = sm.get_source_count();
    let read: Vec<String> = (0..n).map(|i| show_opt(sm.get_source(i))).collect();
    let read_it: Vec<String> = sm.sources().map(|x| show_opt(Some(x))).collect();
    if read != read_it {
        return Ok(format!("ITER-DIFF {}", show_l(read_it, ",")));
    }
    let names: Vec<String> = sm.names().map(|x| to_hex(x.as_bytes())).collect();
    let contents: Vec<String> = (0..n).map(|i| show_opt(sm.get_source_contents(i))).collect();
    let contents_it: Vec<String> = sm.source_contents().map(show_opt).collect();
    if contents != contents_it {
        return Ok(format!("CITER-DIFF {}", show_l(contents_it, ",")));
    }
    let ign: Vec<String> = sm.ignore_list().map(|x| x.to_string()).collect();
    s.push_str(&format!(
        "S={} W={} R={} N={} C={} I={} F={} D={}",
        show_l(read, ","),
        show_l(raw.iter().map(|x| to_hex(x.as_bytes())).collect(), ","),
        show_opt(root.as_deref()),
        show_l(names, ","),
        show_l(contents, ","),
        show_l(ign, ","),
        show_opt(sm.get_file()),
        show_did(sm.get_debug_id())
    ));
    Ok(s)
}

fn bld_seq(t: &[&str]) -> Result<String, ()> {
    let file = opt_str(t[1])?;
    let mut b = SourceMapBuilder::new(file.as_deref());
    let mut outs: Vec<String> = vec![];
    let ops: Vec<&str> = if t[2] == "." { vec![] } else { t[2].split(';').collect() };
    for op in ops {
        let f: Vec<&str> = op.split(':').collect();
        match (f[0], f.len()) {
            ("as", 2) => outs.push(format!("i{}", b.add_source(&req_str(f[1])?))),
            ("an", 2) => outs.push(format!("i{}", b.add_name(&req_str(f[1])?))),
            ("ad", 8) => {
                let src = opt_str(f[5])?;
                let name = opt_str(f[6])?;
                let r = b.add(u32_of(f[1]), u32_of(f[2]), u32_of(f[3]), u32_of(f[4]), src.as_deref(), name.as_deref(), f[7] != "0");
                outs.push(format!("t{}/{}", show_id(r.src_id), show_id(r.name_id)));
            }
            ("ar", 8) => {
                let r = b.add_raw(u32_of(f[1]), u32_of(f[2]), u32_of(f[3]), u32_of(f[4]), opt_u32(f[5]), opt_u32(f[6]), f[7] != "0");
                outs.push(format!("t{}/{}", show_id(r.src_id), show_id(r.name_id)));
            }
            ("sc", 3) => {
                let v = opt_str(f[2])?;
                b.set_source_contents(u32_of(f[1]), v.as_deref());
                outs.push("_".into());
            }
            ("ig", 2) => {
                b.add_to_ignore_list(u32_of(f[1]));
                outs.push("_".into());
            }
            ("sr", 2) => {
                b.set_source_root(opt_str(f[1])?);
                outs.push("_".into());
            }
            ("sf", 2) => {
                b.set_file(opt_str(f[1])?);
                outs.push("_".into());
            }
            ("sd", 2) => {
                b.set_debug_id(parse_did(f[1])?);
                outs.push("_".into());
            }
            ("gs", 2) => outs.push(format!("g{}", show_opt(b.get_source(u32_of(f[1]))))),
            _ => return Ok("bad-op".into()),
        }
    }
    // the builder's own getters report what the finished map will report (C13: "the finished map reports the … file …
    // and source root that were set")
    let (bf, br) = (b.get_file().map(str::to_owned), b.get_source_root().map(str::to_owned));
    let sm = b.into_sourcemap();
    if bf.as_deref() != sm.get_file() || br.as_deref() != sm.get_source_root() {
        return Ok("err builder-getter-differs".into());
    }
    Ok(match show_view(&sm, true) {
        Ok(v) => format!("ok {} {}", show_l(outs, ","), v),
        Err(e) => e,
    })
}

fn smap_seq(t: &[&str]) -> Result<String, ()> {
    let sources: Vec<Arc<str>> = parse_strs(t[1])?.into_iter().map(Into::into).collect();
    let contents: Option<Vec<Option<Arc<str>>>> =
        if t[2] == "~" { None } else { Some(parse_opts(t[2])?.into_iter().map(|x| x.map(Into::into)).collect()) };
    let names: Vec<Arc<str>> = parse_strs(t[3])?.into_iter().map(Into::into).collect();
    let mut sm = SourceMap::new(None, vec![], names, sources, contents);
    let mut states: Vec<String> = vec![];
    macro_rules! snap {
        () => {
            match show_view(&sm, false) {
                Ok(v) => states.push(v),
                Err(e) => return Ok(e),
            }
        };
    }
    snap!();
    let ops: Vec<&str> = if t[4] == "." { vec![] } else { t[4].split(';').collect() };
    for op in ops {
        let f: Vec<&str> = op.split(':').collect();
        match (f[0], f.len()) {
            ("sr", 2) => sm.set_source_root(opt_str(f[1])?),
            ("ss", 3) => sm.set_source(u32_of(f[1]), &req_str(f[2])?),
            ("sc", 3) => {
                let v = opt_str(f[2])?;
                sm.set_source_contents(u32_of(f[1]), v.as_deref())
            }
            ("rt", 1) => {
                let (_, _, bytes) = match written(&sm) {
                    Ok(x) => x,
                    Err(e) => return Ok(e),
                };
                sm = match SourceMap::from_slice(&bytes) {
                    Ok(m) => m,
                    Err(e) => return Ok(format!("err {}", err_kind(&e))),
                };
            }
            ("ig", 2) => sm.add_to_ignore_list(u32_of(f[1])),
            ("sf", 2) => sm.set_file(opt_str(f[1])?),
            ("sd", 2) => sm.set_debug_id(parse_did(f[1])?),
            _ => return Ok("bad-op".into()),
        }
        snap!();
    }
    Ok(format!("ok {}", states.join(" ; ")))
}

pub fn run(t: &[&str]) -> String {
    let r = match t[0] {
        "bld.seq" if t.len() == 3 => bld_seq(t),
        "smap.seq" if t.len() == 5 => smap_seq(t),
        _ => return "bad-op".into(),
    };
    r.unwrap_or_else(|_| "skip".into())
}
