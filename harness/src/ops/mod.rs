pub mod doc;
pub mod idx;
pub mod conc2;
pub mod hermes;
pub mod det;
pub mod hdr;
pub mod bld;
pub mod rw;
pub mod name;
pub mod adj;
pub mod conc;
pub mod fuzz;
pub mod map;
pub mod misc;
pub mod ram;
pub mod sv;
pub mod vlq;

pub fn dispatch(t: &[&str]) -> String {
    match t[0] {
        "vlq.enc" | "vlq.dec" | "vlq.range" => vlq::run(t),
        "map.dec" | "map.enc" | "map.rt" | "map.lookup" => map::run(t),
        "relpath" => misc::run(t),
        "bytes.all" => fuzz::run(t),
        "conc.run" => conc::run(t),
        "ram.parse" | "ram.wf" => ram::run(t),
        "sv.seq" | "sv.corr" => sv::run(t),
        "adj.run" => adj::run(t),
        "name.resolve" => name::run(t),
        "rw.run" | "rw.raw" | "rw.hermes" => rw::run(t),
        "bld.seq" | "smap.seq" => bld::run(t),
        "hdr.chunked" | "hdr.splits" | "hdr.dataurl" | "hdr.b64enc" => hdr::run(t),
        "det.locate" | "det.dataurl" | "det.decode" | "det.is_sm" | "det.ser" => det::run(t),
        "hermes.scope" => hermes::run(t),
        "conc.trace" | "conc.stress" => conc2::run(t),
        "idx.flatten" | "idx.lookup" => idx::run(t),
        "doc.dec" | "doc.rt" | "doc.enc" | "doc.prod" => doc::run(t),
        _ => "bad-op".into(),
    }
}
