//! conc.run (C16): real threads sharing one SourceView, driven through a chosen interleaving by the
//! cfg(sourcemap_verif) yield points in SourceView::get_line.
//!
//! `conc.run <text-hex> <programs> <schedule>`
//!   programs: threads separated by `;`, calls separated by `,`: `g<idx>` get_line, `c` line_count, `a` lines()
//!   schedule: `,`-list of thread ids; each entry lets that thread run up to its next pause point
//!             (start of a call, yield point 1, yield point 2) or to the end of its program; entries
//!             naming a finished thread are skipped.  Afterwards the remaining threads run to completion
//!             one after the other in id order.
//! output: `ok <thread results ;> usable=<get_line(0) on the view afterwards>`; a call that panicked is `P`
//!         and ends its thread.
use crate::util::*;
use sourcemap::SourceView;
use std::cell::Cell;
use std::panic::{catch_unwind, AssertUnwindSafe};
use std::sync::mpsc::{channel, Receiver, Sender};
use std::sync::{Arc, Mutex};

thread_local! {
    static WORKER: Cell<Option<usize>> = const { Cell::new(None) };
}

struct Ctl {
    go: Vec<Mutex<Receiver<()>>>,     // worker i waits here
    report: Mutex<Sender<(usize, bool)>>, // (thread, finished)
}

fn pause(ctl: &Ctl, me: usize) {
    ctl.report.lock().unwrap().send((me, false)).unwrap();
    ctl.go[me].lock().unwrap().recv().unwrap();
}

fn show_line(l: Option<&str>) -> String {
    match l {
        None => "-".into(),
        Some(s) => format!("l{}", if s.is_empty() { "".into() } else { to_hex(s.as_bytes()) }),
    }
}

pub fn run(t: &[&str]) -> String {
    let Some(text) = hex_str(t[1]) else { return "skip".into() };
    let programs: Vec<Vec<String>> = t[2].split(';').map(|p| split_list(p).iter().map(|s| s.to_string()).collect()).collect();
    let schedule: Vec<usize> = split_list(t[3]).iter().map(|x| x.parse().unwrap_or(0)).collect();
    let n = programs.len();
    let view = Arc::new(SourceView::new(text.into()));
    let (rtx, rrx) = channel::<(usize, bool)>();
    let mut gos = vec![];
    let mut go_tx = vec![];
    for _ in 0..n {
        let (tx, rx) = channel::<()>();
        go_tx.push(tx);
        gos.push(Mutex::new(rx));
    }
    let ctl = Arc::new(Ctl { go: gos, report: Mutex::new(rtx) });
    {
        let ctl = ctl.clone();
        sourcemap::verif_hooks::set_hook(Some(Arc::new(move |_point: u32| {
            if let Some(me) = WORKER.with(|w| w.get()) {
                pause(&ctl, me);
            }
        })));
    }
    let results: Arc<Mutex<Vec<Vec<String>>>> = Arc::new(Mutex::new(vec![vec![]; n]));
    let mut handles = vec![];
    for (i, prog) in programs.iter().cloned().enumerate() {
        let view = view.clone();
        let ctl = ctl.clone();
        let results = results.clone();
        handles.push(std::thread::spawn(move || {
            WORKER.with(|w| w.set(Some(i)));
            // wait for the first go
            ctl.go[i].lock().unwrap().recv().unwrap();
            for (k, call) in prog.iter().enumerate() {
                if k > 0 {
                    pause(&ctl, i); // pause point at the start of every later call
                }
                let r = catch_unwind(AssertUnwindSafe(|| {
                    if let Some(idx) = call.strip_prefix('g') {
                        show_line(view.get_line(idx.parse::<u32>().unwrap_or(0)))
                    } else if call == "c" {
                        format!("n{}", view.line_count())
                    } else {
                        let v: Vec<String> = view.lines().map(|l| show_line(Some(l))).collect();
                        format!("[{}]", v.join("/"))
                    }
                }));
                match r {
                    Ok(s) => results.lock().unwrap()[i].push(s),
                    Err(_) => {
                        results.lock().unwrap()[i].push("P".into());
                        break;
                    }
                }
            }
            WORKER.with(|w| w.set(None));
            ctl.report.lock().unwrap().send((i, true)).unwrap();
        }));
    }
    let mut finished = vec![false; n];
    let mut step = |i: usize, finished: &mut Vec<bool>| {
        if finished[i] {
            return;
        }
        go_tx[i].send(()).unwrap();
        let (who, fin) = rrx.recv().unwrap();
        debug_assert_eq!(who, i);
        if fin {
            finished[who] = true;
        }
    };
    for &s in &schedule {
        if s < n {
            step(s, &mut finished);
        }
    }
    for i in 0..n {
        while !finished[i] {
            step(i, &mut finished);
        }
    }
    for h in handles {
        let _ = h.join();
    }
    sourcemap::verif_hooks::set_hook(None);
    let usable = match catch_unwind(AssertUnwindSafe(|| show_line(view.get_line(0)))) {
        Ok(s) => s,
        Err(_) => "P".into(),
    };
    let res = results.lock().unwrap();
    let per: Vec<String> = res.iter().map(|v| if v.is_empty() { "-".into() } else { v.join(",") }).collect();
    format!("ok {} usable={}", per.join(";"), usable)
}
