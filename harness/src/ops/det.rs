//! det.* (C18): reference discovery, data URLs and source-map detection through the public API
//! (locate_sourcemap_reference(_slice), SourceMapRef, SourceMap::to_data_url, decode_data_url,
//! is_sourcemap(_slice), decode_slice, to_writer).
use crate::ops::map::show_toks;
use crate::util::*;
use sourcemap::{
    decode_data_url, decode_slice, is_sourcemap, is_sourcemap_slice, locate_sourcemap_reference,
    locate_sourcemap_reference_slice, DecodedMap, SourceMap, SourceMapRef,
};
use std::io::Read;

/// a reader that hands out at most `n` bytes per `read` call
struct Chunky<'a> {
    d: &'a [u8],
    n: usize,
}
impl<'a> Read for Chunky<'a> {
    fn read(&mut self, buf: &mut [u8]) -> std::io::Result<usize> {
        let k = self.n.min(buf.len()).min(self.d.len());
        buf[..k].copy_from_slice(&self.d[..k]);
        self.d = &self.d[k..];
        Ok(k)
    }
}

fn show_ref(r: &Result<Option<SourceMapRef>, sourcemap::Error>) -> String {
    match r {
        Ok(None) => "ok none".into(),
        Ok(Some(SourceMapRef::Ref(u))) => format!("ok ref {}", to_hex(u.as_bytes())),
        Ok(Some(SourceMapRef::LegacyRef(u))) => format!("ok legacy {}", to_hex(u.as_bytes())),
        Err(e) => format!("err {}", err_kind(e)),
    }
}

/// everything the property compares of two maps: tokens, sources, names, contents, file, root
/// (plus ignore list and debug id)
fn describe(sm: &SourceMap) -> String {
    let srcs: Vec<String> = sm.sources().map(|s| to_hex(s.as_bytes())).collect();
    let names: Vec<String> = sm.names().map(|s| to_hex(s.as_bytes())).collect();
    let conts: Vec<String> = sm.source_contents().map(|c| c.map(|s| format!("s{}", to_hex(s.as_bytes()))).unwrap_or("none".into())).collect();
    let ign: Vec<String> = sm.ignore_list().map(|x| x.to_string()).collect();
    format!(
        "T{} S{} N{} C{} F{} R{} I{} D{}",
        show_toks(sm),
        srcs.join(","),
        names.join(","),
        conts.join(","),
        sm.get_file().map(|s| to_hex(s.as_bytes())).unwrap_or("none".into()),
        sm.get_source_root().map(|s| to_hex(s.as_bytes())).unwrap_or("none".into()),
        ign.join(","),
        sm.get_debug_id().map(|d| d.to_string()).unwrap_or("none".into())
    )
}

fn encode_sm(sm: &SourceMap) -> Result<Vec<u8>, String> {
    let mut out = vec![];
    sm.to_writer(&mut out).map_err(|e| format!("err {}", err_kind(&e)))?;
    Ok(out)
}

/// does `dm` equal `sm` (as a regular map), field by field and in its serialised form
fn same_map(dm: &DecodedMap, sm: &SourceMap, enc: &[u8]) -> bool {
    match dm {
        DecodedMap::Regular(sm2) => describe(sm2) == describe(sm) && encode_sm(sm2).map(|e| e == enc).unwrap_or(false),
        _ => false,
    }
}

/// top-level `(key, value is not null)` pairs of a JSON object, in document order
fn top_keys(doc: &[u8]) -> Vec<(String, bool)> {
    let mut out = vec![];
    let mut depth = 0i32;
    let mut expect_key = false;
    let mut i = 0;
    let ws = |c: u8| c == b' ' || c == b'\n' || c == b'\r' || c == b'\t';
    while i < doc.len() {
        let c = doc[i];
        match c {
            b'"' => {
                let start = i + 1;
                let mut j = start;
                while j < doc.len() && doc[j] != b'"' {
                    if doc[j] == b'\\' {
                        j += 1;
                    }
                    j += 1;
                }
                if depth == 1 && expect_key {
                    let key = String::from_utf8_lossy(&doc[start..j.min(doc.len())]).to_string();
                    let mut k = j + 1;
                    while k < doc.len() && ws(doc[k]) {
                        k += 1;
                    }
                    k += 1; // ':'
                    while k < doc.len() && ws(doc[k]) {
                        k += 1;
                    }
                    let nonnull = !(k <= doc.len() && doc[k.min(doc.len())..].starts_with(b"null"));
                    out.push((key, nonnull));
                    expect_key = false;
                    i = k;
                    continue;
                }
                i = j + 1;
                continue;
            }
            b'{' | b'[' => {
                depth += 1;
                if depth == 1 && c == b'{' {
                    expect_key = true;
                }
            }
            b'}' | b']' => depth -= 1,
            b',' => {
                if depth == 1 {
                    expect_key = true;
                }
            }
            _ => {}
        }
        i += 1;
    }
    out
}

pub fn run(t: &[&str]) -> String {
    match t[0] {
        // det.locate <text-hex>  →  ok none | ok ref <url-hex> | ok legacy <url-hex>
        "det.locate" => {
            let text = parse_hex(t[1]);
            let a = show_ref(&locate_sourcemap_reference_slice(&text));
            // the reader entry point, fed in small pieces, must say the same
            for n in [1usize, 5, 4096] {
                let b = show_ref(&locate_sourcemap_reference(Chunky { d: &text, n }));
                if a != b {
                    return format!("ok MISMATCH-reader{} {} / {}", n, a, b);
                }
            }
            a
        }
        // det.dataurl <json-hex> <expected-serialisation-hex> <pre-hex> <post-hex>
        //   →  ok <serialised-hex> <url-hex> rt=<0|1> emb=<0|1>
        "det.dataurl" => {
            let json = parse_hex(t[1]);
            let pre = parse_hex(t[3]);
            let post = parse_hex(t[4]);
            let sm = match SourceMap::from_slice(&json) {
                Ok(sm) => sm,
                Err(e) => return format!("err {}", err_kind(&e)),
            };
            let enc = match encode_sm(&sm) {
                Ok(e) => e,
                Err(e) => return e,
            };
            let url = match sm.to_data_url() {
                Ok(u) => u,
                Err(e) => return format!("err {}", err_kind(&e)),
            };
            // the library decodes its own URL back to an equal map
            let rt = match decode_data_url(&url) {
                Ok(dm) => same_map(&dm, &sm, &enc),
                Err(_) => false,
            };
            // … also when the URL is placed in a comment of a generated file and discovered there
            let mut text = pre.clone();
            text.extend_from_slice(b"//# sourceMappingURL=");
            text.extend_from_slice(url.as_bytes());
            text.extend_from_slice(&post);
            let emb_modern = match locate_sourcemap_reference_slice(&text) {
                Ok(Some(r @ SourceMapRef::Ref(_))) => {
                    r.get_url() == url
                        && match r.get_embedded_sourcemap() {
                            Ok(Some(dm)) => same_map(&dm, &sm, &enc),
                            _ => false,
                        }
                }
                _ => false,
            };
            // … and in the legacy `//@` comment form: found, flagged legacy, and embedded all the same
            let mut text2 = pre.clone();
            text2.extend_from_slice(b"//@ sourceMappingURL=");
            text2.extend_from_slice(url.as_bytes());
            text2.extend_from_slice(&post);
            let emb_legacy = match locate_sourcemap_reference_slice(&text2) {
                Ok(Some(r @ SourceMapRef::LegacyRef(_))) => {
                    r.get_url() == url
                        && match r.get_embedded_sourcemap() {
                            Ok(Some(dm)) => same_map(&dm, &sm, &enc),
                            _ => false,
                        }
                }
                _ => false,
            };
            let emb = emb_modern && emb_legacy;
            format!("ok {} {} rt={} emb={}", to_hex(&enc), to_hex(url.as_bytes()), rt as u8, emb as u8)
        }
        // det.decode <url-hex> <payload-hex | x>
        //   with a payload (a canonical serialised map):  ok <re-serialised-hex> | err <kind>
        //   with x (arbitrary payload):                   ok accepted | err dataurl
        "det.decode" => {
            let Some(url) = hex_str(t[1]) else { return "skip".into() };
            let r = decode_data_url(&url);
            if t[2] == "x" {
                return match r {
                    Err(sourcemap::Error::InvalidDataUrl) => "err dataurl".into(),
                    _ => "ok accepted".into(),
                };
            }
            match r {
                Ok(dm) => {
                    let mut out = vec![];
                    match dm.to_writer(&mut out) {
                        Ok(()) => format!("ok {}", to_hex(&out)),
                        Err(e) => format!("err {}", err_kind(&e)),
                    }
                }
                Err(e) => format!("err {}", err_kind(&e)),
            }
        }
        // det.is_sm <doc-hex> <presence description, used by the model only>  →  ok <0|1>
        "det.is_sm" => {
            let doc = parse_hex(t[1]);
            let a = is_sourcemap_slice(&doc);
            let b = is_sourcemap(Chunky { d: &doc, n: 3 });
            if a != b {
                return format!("ok MISMATCH-reader {} / {}", a as u8, b as u8);
            }
            format!("ok {}", a as u8)
        }
        // det.ser <json-hex> <kind> <flags>  →  ok <kind> <emitted top-level keys, `:null` marked> <is_sourcemap 0|1>
        "det.ser" => {
            let json = parse_hex(t[1]);
            let dm = match decode_slice(&json) {
                Ok(dm) => dm,
                Err(e) => return format!("err {}", err_kind(&e)),
            };
            let kind = match dm {
                DecodedMap::Regular(_) => "regular",
                DecodedMap::Index(_) => "index",
                DecodedMap::Hermes(_) => "hermes",
            };
            let mut out = vec![];
            if let Err(e) = dm.to_writer(&mut out) {
                return format!("err {}", err_kind(&e));
            }
            let keys: Vec<String> = top_keys(&out).into_iter().map(|(k, nn)| if nn { k } else { format!("{}:null", k) }).collect();
            let a = is_sourcemap_slice(&out);
            let b = is_sourcemap(Chunky { d: &out, n: 7 });
            if a != b {
                return format!("ok MISMATCH-reader {} / {}", a as u8, b as u8);
            }
            format!("ok {} {} {}", kind, show_list(&keys), a as u8)
        }
        _ => "bad-op".into(),
    }
}
