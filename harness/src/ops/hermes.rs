//! hermes.scope: build a Hermes/Metro JSON document (serde_json), decode it with
//! `SourceMapHermes::from_slice`, resolve the scope of every token (`get_scope_for_token`) and of the
//! listed bytecode offsets (`get_original_function_name`), then `to_writer` + decode again and
//! compare the answers.
//!
//!   hermes.scope <nsrc> <nnames> <mappings hex> <rangeMappings hex|none> <fsrc> <offsets>
//!   fsrc := absent | - | src (';' src)* ;  src := n | e | meta ('+' meta)* ;  meta := names ':' hex
//!   names := - | name ('.' name)* ;  name := hex | _
use crate::util::*;
use serde_json::{json, Value};
use sourcemap::{decode_slice, DecodedMap, SourceMapHermes};

fn name_of(s: &str) -> Option<String> {
    if s == "_" {
        Some(String::new())
    } else {
        hex_str(s)
    }
}

fn meta(s: &str) -> Option<Value> {
    let (n, m) = s.split_once(':')?;
    let names: Vec<String> = if n == "-" || n.is_empty() {
        vec![]
    } else {
        n.split('.').map(name_of).collect::<Option<Vec<_>>>()?
    };
    Some(json!({"names": names, "mappings": hex_str(m)?}))
}

fn fsrc(s: &str) -> Option<Option<Value>> {
    if s == "absent" {
        return Some(None);
    }
    if s == "-" {
        return Some(Some(json!([])));
    }
    let mut v = vec![];
    for src in s.split(';') {
        v.push(match src {
            "n" => Value::Null,
            "e" => json!([]),
            _ => Value::Array(src.split('+').map(meta).collect::<Option<Vec<_>>>()?),
        });
    }
    Some(Some(Value::Array(v)))
}

fn show_name(n: Option<&str>) -> String {
    match n {
        None => "~".into(),
        Some("") => "_".into(),
        Some(s) => to_hex(s.as_bytes()),
    }
}

/// (scope per token in canonical token order, the same as a set of `key=scope` strings, scope per offset)
fn answers(smh: &SourceMapHermes, offs: &[u32]) -> (Vec<String>, Vec<String>, Vec<String>) {
    let mut keyed: Vec<((u32, u32, u32, u32, u32, u32, bool), String)> = smh
        .tokens()
        .map(|t| {
            let r = t.get_raw_token();
            let key = (r.dst_line, r.dst_col, r.src_line, r.src_col, r.src_id, r.name_id, r.is_range);
            (key, show_name(smh.get_scope_for_token(t)))
        })
        .collect();
    keyed.sort();
    let ta: Vec<String> = keyed.iter().map(|(_, a)| a.clone()).collect();
    let mut set: Vec<String> = keyed.iter().map(|(k, a)| format!("{:?}={}", k, a)).collect();
    set.dedup();
    let oa: Vec<String> = offs.iter().map(|&o| show_name(smh.get_original_function_name(o))).collect();
    (ta, set, oa)
}

pub fn run(t: &[&str]) -> String {
    if t[0] != "hermes.scope" || t.len() != 7 {
        return "bad-op".into();
    }
    let nsrc: usize = t[1].parse().unwrap_or(0);
    let nn: usize = t[2].parse().unwrap_or(0);
    let Some(m) = hex_str(t[3]) else { return "skip".into() };
    let rmi = if t[4] == "none" { None } else { hex_str(t[4]) };
    if t[4] != "none" && rmi.is_none() {
        return "skip".into();
    }
    let Some(fs) = fsrc(t[5]) else { return "skip".into() };
    let offs = parse_u32s(t[6]);

    let srcs: Vec<String> = (0..nsrc).map(|i| format!("s{i}")).collect();
    let nms: Vec<String> = (0..nn).map(|i| format!("n{i}")).collect();
    let mut doc = json!({"version": 3, "sources": srcs, "names": nms, "mappings": m});
    if let Some(r) = rmi {
        doc["rangeMappings"] = Value::String(r);
    }
    if let Some(f) = fs {
        doc["x_facebook_sources"] = f;
    }
    let text = doc.to_string();

    let smh = match SourceMapHermes::from_slice(text.as_bytes()) {
        Ok(x) => x,
        Err(e) => return format!("err {}", err_kind(&e)),
    };
    let (ta, set, oa) = answers(&smh, &offs);

    // the same questions through the untyped front door (`decode_slice` + `DecodedMap`): a bytecode offset is asked
    // for as (line 0, column = offset); any other line has no scope; token lookup is the embedded map's
    match decode_slice(text.as_bytes()) {
        Ok(DecodedMap::Hermes(dm_inner)) => {
            let dm = DecodedMap::Hermes(dm_inner);
            for (k, &o) in offs.iter().enumerate() {
                if show_name(dm.get_original_function_name(0, o, None, None)) != oa[k] {
                    return "err dispatch-differs-line0".into();
                }
                for l in [1u32, 2, o.max(1)] {
                    if dm.get_original_function_name(l, o, None, None).is_some() {
                        return "err dispatch-differs-other-line".into();
                    }
                }
                let a = dm.lookup_token(0, o).map(|t| t.get_raw_token());
                let b = smh.lookup_token(0, o).map(|t| t.get_raw_token());
                if a != b {
                    return "err dispatch-differs-lookup".into();
                }
            }
        }
        Ok(_) => return "err dispatch-not-hermes".into(),
        Err(e) => return format!("err dispatch-{}", err_kind(&e)),
    }

    // serialise and decode again: the answers must not change
    let mut out = vec![];
    let rt = match smh.to_writer(&mut out) {
        Err(e) => format!("R-enc-{}", err_kind(&e)),
        Ok(()) => match SourceMapHermes::from_slice(&out) {
            Err(e) => format!("R-dec-{}", err_kind(&e)),
            Ok(smh2) => {
                let (_, set2, oa2) = answers(&smh2, &offs);
                if set2 == set && oa2 == oa { "R1".to_string() } else { "R0".to_string() }
            }
        },
    };
    // a rewritten Hermes map (sources renumbered by first use, unreferenced ones dropped, the parsed and the raw
    // function-map table re-slotted) is a Hermes map like any other: its answers survive serialise-and-decode too
    if let Ok(rw) = smh.clone().rewrite(&sourcemap::RewriteOptions::default()) {
        let set_rw = answers(&rw, &[]).1;
        let mut out2 = vec![];
        match rw.to_writer(&mut out2).ok().and_then(|_| SourceMapHermes::from_slice(&out2).ok()) {
            Some(rw2) => {
                if answers(&rw2, &[]).1 != set_rw {
                    return "err rewritten-roundtrip-differs".into();
                }
            }
            None => return "err rewritten-unreadable".into(),
        }
    }
    let mut all = vec!["T".to_string()];
    all.extend(ta);
    all.push("O".into());
    all.extend(oa);
    all.push(rt);
    format!("ok {}", all.join(","))
}
