//! idx.flatten / idx.lookup (C08): index maps built through the public constructors
//! (`SourceMap::new`, `SourceMapSection::new`, `SourceMapIndex::new`; Hermes sections through
//! `SourceMapHermes::from_slice`), optionally sent through JSON (`to_writer` + `from_slice`, mode `j`),
//! then `SourceMapIndex::flatten` and `lookup_token` on the index and on the flattened map.
//!
//! index description (space separated, prefix notation):
//!   DMAP    := R <map> | H <map> | I <file> SECTION* E
//!   SECTION := S <ol> <oc> <url> DMAP | U <ol> <oc> <url>
//!   <map>   := <root> <sources> <names> <contents> <ignore> <tokens>
//! strings: `~` none, `-` empty, else hex; lists: `.` empty, else `,`-separated (tokens `;`-separated)
use crate::util::*;
use sourcemap::{DecodedMap, RawToken, SourceMap, SourceMapHermes, SourceMapIndex, SourceMapSection, Token};
use std::sync::Arc;

fn opt_str(s: &str) -> Result<Option<String>, ()> {
    if s == "~" {
        Ok(None)
    } else {
        String::from_utf8(parse_hex(s)).map(Some).map_err(|_| ())
    }
}
fn list_of(s: &str, sep: char) -> Vec<&str> {
    if s == "." || s.is_empty() {
        vec![]
    } else {
        s.split(sep).collect()
    }
}
fn show_opt(s: Option<&str>) -> String {
    match s {
        None => "~".into(),
        Some(x) => to_hex(x.as_bytes()),
    }
}
fn show_l(v: Vec<String>, sep: &str) -> String {
    if v.is_empty() {
        ".".into()
    } else {
        v.join(sep)
    }
}
fn num(s: &str) -> u32 {
    s.parse::<u32>().unwrap_or(0)
}
fn parse_tok(t: &str) -> RawToken {
    let mut f: Vec<u32> = t.split(':').map(num).collect();
    f.resize(7, 0);
    RawToken { dst_line: f[0], dst_col: f[1], src_line: f[2], src_col: f[3], src_id: f[4], name_id: f[5], is_range: f[6] != 0 }
}

fn mk_map(f: &[&str]) -> Result<SourceMap, ()> {
    let root = opt_str(f[0])?;
    let mut sources: Vec<Arc<str>> = vec![];
    for s in list_of(f[1], ',') {
        sources.push(opt_str(s)?.ok_or(())?.into());
    }
    let mut names: Vec<Arc<str>> = vec![];
    for s in list_of(f[2], ',') {
        names.push(opt_str(s)?.ok_or(())?.into());
    }
    let mut contents: Vec<Option<Arc<str>>> = vec![];
    for s in list_of(f[3], ',') {
        contents.push(opt_str(s)?.map(Into::into));
    }
    let toks: Vec<RawToken> = list_of(f[5], ';').into_iter().map(parse_tok).collect();
    let mut sm = SourceMap::new(None, toks, names, sources, if contents.is_empty() { None } else { Some(contents) });
    if let Some(r) = root {
        sm.set_source_root(Some(r));
    }
    for i in list_of(f[4], ',') {
        sm.add_to_ignore_list(num(i));
    }
    Ok(sm)
}

/// a Hermes map can only be obtained by decoding: serialise the plain map, add an (empty)
/// `x_facebook_sources`, decode
fn mk_hermes(sm: &SourceMap) -> Result<SourceMapHermes, String> {
    if sm.tokens().any(|t| t.get_dst_line() > 200_000) {
        return Err("skip".into()); // the writer emits one `;` per line
    }
    let mut out = vec![];
    sm.to_writer(&mut out).map_err(|e| format!("err {}", err_kind(&e)))?;
    let mut v: serde_json::Value = serde_json::from_slice(&out).map_err(|_| "err badjson-out".to_string())?;
    v["x_facebook_sources"] = serde_json::json!([]);
    SourceMapHermes::from_slice(v.to_string().as_bytes()).map_err(|e| format!("err hermes-{}", err_kind(&e)))
}

enum P {
    Bad,
    Err(String),
}

fn parse_d<'a>(t: &'a [&'a str]) -> Result<(DecodedMap, &'a [&'a str]), P> {
    match t.first() {
        Some(&"R") | Some(&"H") if t.len() >= 7 => {
            let sm = mk_map(&t[1..7]).map_err(|_| P::Bad)?;
            let d = if t[0] == "R" { DecodedMap::Regular(sm) } else { DecodedMap::Hermes(mk_hermes(&sm).map_err(P::Err)?) };
            Ok((d, &t[7..]))
        }
        Some(&"I") if t.len() >= 2 => {
            let file = opt_str(t[1]).map_err(|_| P::Bad)?;
            let (secs, rest) = parse_s(&t[2..])?;
            Ok((DecodedMap::Index(SourceMapIndex::new(file, secs)), rest))
        }
        _ => Err(P::Bad),
    }
}
fn parse_s<'a>(t: &'a [&'a str]) -> Result<(Vec<SourceMapSection>, &'a [&'a str]), P> {
    let mut secs = vec![];
    let mut t = t;
    loop {
        match t.first() {
            Some(&"E") => return Ok((secs, &t[1..])),
            Some(&"U") if t.len() >= 4 => {
                let url = opt_str(t[3]).map_err(|_| P::Bad)?;
                secs.push(SourceMapSection::new((num(t[1]), num(t[2])), url, None));
                t = &t[4..];
            }
            Some(&"S") if t.len() >= 4 => {
                let url = opt_str(t[3]).map_err(|_| P::Bad)?;
                let (d, rest) = parse_d(&t[4..])?;
                secs.push(SourceMapSection::new((num(t[1]), num(t[2])), url, Some(d)));
                t = rest;
            }
            _ => return Err(P::Bad),
        }
    }
}

fn max_line(ix: &SourceMapIndex) -> u32 {
    let mut m = 0;
    for sec in ix.sections() {
        m = m.max(match sec.get_sourcemap() {
            Some(DecodedMap::Regular(sm)) => sm.tokens().map(|t| t.get_dst_line()).max().unwrap_or(0),
            Some(DecodedMap::Hermes(sm)) => sm.tokens().map(|t| t.get_dst_line()).max().unwrap_or(0),
            Some(DecodedMap::Index(i)) => max_line(i),
            None => 0,
        });
    }
    m
}

fn parse_index(mode: &str, t: &[&str]) -> Result<SourceMapIndex, P> {
    let (d, rest) = parse_d(t)?;
    if !rest.is_empty() {
        return Err(P::Bad);
    }
    let DecodedMap::Index(ix) = d else { return Err(P::Bad) };
    match mode {
        "c" => Ok(ix),
        "j" => {
            if max_line(&ix) > 200_000 {
                return Err(P::Err("skip".into())); // the writer emits one `;` per line
            }
            let mut out = vec![];
            ix.to_writer(&mut out).map_err(|e| P::Err(format!("err write-{}", err_kind(&e))))?;
            SourceMapIndex::from_slice(&out).map_err(|e| P::Err(format!("err read-{}", err_kind(&e))))
        }
        _ => Err(P::Bad),
    }
}

fn show_tok(t: &Token<'_>) -> String {
    let raw = t.get_raw_token();
    format!(
        "{}:{}:{}:{}:{}:{}:{}",
        t.get_dst_line(),
        t.get_dst_col(),
        show_opt(t.get_source()),
        raw.src_line,
        raw.src_col,
        show_opt(t.get_name()),
        t.is_range() as u8
    )
}
fn show_map(sm: &SourceMap) -> String {
    let toks: Vec<String> = sm.tokens().map(|t| show_tok(&t)).collect();
    let toks = { let mut t = toks; let m = crate::util::order_marker(&sm); if !m.is_empty() { t.push(m.to_string()); } t };
    let srcs: Vec<String> = (0..sm.get_source_count()).map(|i| show_opt(sm.get_source(i))).collect();
    let names: Vec<String> = sm.names().map(|n| to_hex(n.as_bytes())).collect();
    let conts: Vec<String> = sm.source_contents().map(show_opt).collect();
    let ign: Vec<String> = sm.ignore_list().map(|i| i.to_string()).collect();
    format!("ok T={} S={} N={} C={} G={}", show_l(toks, ";"), show_l(srcs, ","), show_l(names, ","), show_l(conts, ","), show_l(ign, ","))
}
fn show_hit(t: Option<Token<'_>>) -> String {
    match t {
        None => "_".into(),
        Some(t) if !token_accessors_agree(&t) => "accessors-differ".into(),
        Some(t) => format!("{}:{}:{}:{}", show_opt(t.get_source()), t.get_src_line(), t.get_src_col(), show_opt(t.get_name())),
    }
}

pub fn run(t: &[&str]) -> String {
    match t[0] {
        "idx.flatten" if t.len() >= 3 => {
            let ix = match parse_index(t[1], &t[2..]) {
                Ok(ix) => ix,
                Err(P::Bad) => return "bad-op".into(),
                Err(P::Err(e)) => return e,
            };
            match ix.flatten() {
                Ok(sm) => show_map(&sm),
                Err(e) => format!("err {}", err_kind(&e)),
            }
        }
        "idx.lookup" if t.len() >= 4 => {
            let ix = match parse_index(t[1], &t[3..]) {
                Ok(ix) => ix,
                Err(P::Bad) => return "bad-op".into(),
                Err(P::Err(e)) => return e,
            };
            let flat = ix.flatten();
            let dm = DecodedMap::Index(ix.clone());
            let mut out = vec![];
            for q in list_of(t[2], ',') {
                let mut f = q.split(':').map(num);
                let (l, c) = (f.next().unwrap_or(0), f.next().unwrap_or(0));
                let i = show_hit(ix.lookup_token(l, c));
                // `DecodedMap::lookup_token` is the same lookup
                if show_hit(dm.lookup_token(l, c)) != i {
                    return "err dispatch-differs".into();
                }
                let fl = match &flat {
                    Ok(sm) => show_hit(sm.lookup_token(l, c)),
                    Err(_) => "!".into(),
                };
                out.push(format!("{i}/{fl}"));
            }
            format!("ok {}", show_l(out, ","))
        }
        _ => "bad-op".into(),
    }
}
