//! ram.parse (C20): indexed RAM bundle reader through the public API.
use crate::util::*;
use sourcemap::ram_bundle::{is_ram_bundle_slice, RamBundle};

fn show_res(r: Result<Option<Vec<u8>>, sourcemap::Error>) -> String {
    match r {
        Ok(None) => "none".into(),
        Ok(Some(d)) => format!("m{}", if d.is_empty() { "".into() } else { to_hex(&d) }),
        Err(e) => format!("e{}", err_kind(&e)),
    }
}

/// `ram.parse <bytes-hex> <ids ,-list> <iter-limit>` →
/// `ok rec=<0|1> <count> startup=<..> mods=<id results ,> iter=<id:res ,>`  |  `err <kind> rec=<0|1>`
pub fn run(t: &[&str]) -> String {
    let bytes = parse_hex(t[1]);
    // `ram.wf <bytes> <startup> <slots>`: a generated well-formed bundle; ids 0..n+1 are queried
    let (ids, limit): (Vec<usize>, usize) = if t[0] == "ram.wf" {
        let n = if t[3] == "-" { 0 } else { t[3].split(';').count() };
        ((0..n + 2).collect(), n + 2)
    } else {
        (split_list(t[2]).iter().map(|x| x.parse().unwrap_or(0)).collect(), t[3].parse().unwrap_or(16))
    };
    let rec = is_ram_bundle_slice(&bytes) as u8;
    let b = match RamBundle::parse_indexed_from_slice(&bytes) {
        Ok(b) => b,
        Err(e) => return format!("err {} rec={}", err_kind(&e), rec),
    };
    let startup = match b.startup_code() {
        Ok(s) => format!("m{}", if s.is_empty() { "".into() } else { to_hex(s) }),
        Err(e) => format!("e{}", err_kind(&e)),
    };
    let mods: Vec<String> = ids.iter().map(|&id| show_res(b.get_module(id).map(|o| o.map(|m| m.data().to_vec())))).collect();
    // the iterator is a walk over get_module(0..count) that skips empty slots; a corrupted count can be
    // 2^32, so only the items belonging to ids below `limit` are taken: their number is known from
    // get_module itself, and they come first because the walk is in id order
    let upto = std::cmp::min(b.module_count(), limit);
    let expect: Vec<String> = (0..upto)
        .filter_map(|id| match b.get_module(id) {
            Ok(None) => None,
            Ok(Some(m)) => Some(format!("{}:m{}", id, if m.data().is_empty() { "".into() } else { to_hex(m.data()) })),
            Err(e) => Some(format!("{}:e{}", id, err_kind(&e))),
        })
        .collect();
    // when the whole table lies below the cap the iterator must be EXHAUSTED after the expected items
    // (one more item is requested: an extra item, or any item from an all-empty table, is a difference)
    let whole = b.module_count() <= limit;
    let got: Vec<String> = b
        .iter_modules()
        .take(expect.len() + if whole { 1 } else { 0 })
        .map(|r| match r {
            Ok(m) => format!("{}:m{}", m.id(), if m.data().is_empty() { "".into() } else { to_hex(m.data()) }),
            Err(e) => format!("e{}", err_kind(&e)),
        })
        .collect();
    // errors carry no id on the iterator side: compare modulo the id of error items
    let strip = |s: &String| if s.contains(":e") { s.split(':').nth(1).unwrap().to_string() } else { s.clone() };
    let same = got.len() == expect.len() && got.iter().zip(expect.iter()).all(|(g, e)| *g == strip(e));
    let it: Vec<String> = if same { expect } else { vec!["ITER-DIFF".to_string()].into_iter().chain(got).collect() };
    format!("ok rec={} {} startup={} mods={} iter={}", rec, b.module_count(), startup, show_list(&mods), show_list(&it))
}
