//! rw.run / rw.raw / rw.hermes (C09): `SourceMap::rewrite` and `SourceMapHermes::rewrite` through
//! the public API.
//!
//! Field conventions of this family (shared with lean/SmVerif/Model/DrvRewrite.lean):
//!   string        hex, `-` = empty string
//!   optional      `~` = None, otherwise a string
//!   list          `_` = empty list, otherwise `,`-separated items
//!   tokens        `dl:dc:sl:sc:src:name:rng;...`, `-` = none
//!
//! rw.run  <sources> <names> <root?> <contents: _ = no vector | list of optional> <file?> <debugid?>
//!         <tokens> <ignore ids> <with_names> <with_source_contents> <prefixes>
//!   -> ok T=<dl:dc:src?:sl:sc:name?:rng;...> S=<sources> N=<names> C=<contents per source> F=<file?> D=<debugid?>
//! rw.raw  (same arguments) -> ok T=<raw tokens> R=<root?> I=<ignore list> n=<source count>/<name count>
//! rw.hermes <sources> <names> <function maps> <tokens> <with_names> <with_source_contents> <prefixes>
//!   function maps: `_` = empty, else `,`-separated, each `~` (null) or `<name>+<name>..=<line.col.nameidx>+..`
//!   -> ok <scope before>/<scope after>;... X=<number of x_facebook_sources entries after, or ~>
use crate::ops::map::parse_toks;
use crate::util::*;
use sourcemap::{DecodedMap, RewriteOptions, SourceMap};
use std::str::FromStr;
use std::sync::Arc;

fn s_of(h: &str) -> Option<String> {
    String::from_utf8(parse_hex(h)).ok()
}
fn list_of(f: &str) -> Option<Vec<String>> {
    if f == "_" {
        return Some(vec![]);
    }
    f.split(',').map(s_of).collect()
}
fn opt_of(f: &str) -> Option<Option<String>> {
    if f == "~" {
        Some(None)
    } else {
        s_of(f).map(Some)
    }
}
fn optlist_of(f: &str) -> Option<Vec<Option<String>>> {
    if f == "_" {
        return Some(vec![]);
    }
    f.split(',').map(opt_of).collect()
}
fn show_s(s: &str) -> String {
    to_hex(s.as_bytes())
}
fn show_opt(s: Option<&str>) -> String {
    match s {
        None => "~".into(),
        Some(x) => show_s(x),
    }
}
fn show_items(v: Vec<String>, sep: &str) -> String {
    if v.is_empty() {
        "_".into()
    } else {
        v.join(sep)
    }
}

struct Input {
    sm: SourceMap,
    with_names: bool,
    with_contents: bool,
    prefixes: Vec<String>,
}

fn build(t: &[&str]) -> Option<Input> {
    let sources = list_of(t[1])?;
    let names = list_of(t[2])?;
    let root = opt_of(t[3])?;
    let contents: Option<Vec<Option<Arc<str>>>> = if t[4] == "_" {
        None
    } else {
        Some(optlist_of(t[4])?.into_iter().map(|c| c.map(|x| Arc::from(x.as_str()))).collect())
    };
    let file = opt_of(t[5])?;
    let debug_id = opt_of(t[6])?;
    let toks = parse_toks(t[7]);
    let ignore = parse_u32s(t[8]);
    let prefixes = list_of(t[11])?;
    if prefixes.iter().any(|p| p == "~") {
        return None; // common-prefix detection: outside this package
    }
    let mut sm = SourceMap::new(
        file.map(|f| Arc::from(f.as_str())),
        toks,
        names.iter().map(|x| Arc::from(x.as_str())).collect(),
        sources.iter().map(|x| Arc::from(x.as_str())).collect(),
        contents,
    );
    sm.set_source_root(root);
    if let Some(d) = debug_id {
        sm.set_debug_id(Some(debugid::DebugId::from_str(&d).ok()?));
    }
    for i in ignore {
        sm.add_to_ignore_list(i);
    }
    Some(Input { sm, with_names: t[9] != "0", with_contents: t[10] != "0", prefixes })
}

fn opts<'a>(with_names: bool, with_contents: bool, prefixes: &'a [&'a str]) -> RewriteOptions<'a> {
    RewriteOptions { with_names, with_source_contents: with_contents, strip_prefixes: prefixes, ..Default::default() }
}

fn show_resolved(sm: &SourceMap) -> String {
    let toks: Vec<String> = sm
        .tokens()
        .map(|t| {
            format!(
                "{}:{}:{}:{}:{}:{}:{}",
                t.get_dst_line(),
                t.get_dst_col(),
                show_opt(t.get_source()),
                t.get_src_line(),
                t.get_src_col(),
                show_opt(t.get_name()),
                t.is_range() as u8
            )
        })
        .collect();
    let srcs: Vec<String> = sm.sources().map(show_s).collect();
    let names: Vec<String> = sm.names().map(show_s).collect();
    let conts: Vec<String> = sm.source_contents().map(show_opt).collect();
    let dbg = sm.get_debug_id().map(|d| d.to_string());
    format!(
        "ok T={} S={} N={} C={} F={} D={}",
        show_items(toks, ";"),
        show_items(srcs, ","),
        show_items(names, ","),
        show_items(conts, ","),
        show_opt(sm.get_file()),
        show_opt(dbg.as_deref())
    )
}

fn show_raw(sm: &SourceMap) -> String {
    let toks: Vec<String> = sm.tokens().map(|t| crate::ops::map::show_tok(&t.get_raw_token())).collect();
    let toks = { let mut t = toks; let m = crate::util::order_marker(&sm); if !m.is_empty() { t.push(m.to_string()); } t };
    let ign: Vec<String> = sm.ignore_list().map(|x| x.to_string()).collect();
    format!(
        "ok T={} R={} I={} n={}/{}",
        show_items(toks, ";"),
        show_opt(sm.get_source_root()),
        show_items(ign, ","),
        sm.get_source_count(),
        sm.get_name_count()
    )
}

/// the crate-independent VLQ writer of this harness (function-map payloads only)
fn vlq(n: i64, out: &mut String) {
    const B64: &[u8] = b"ABCDEFGHIJKLMNOPQRSTUVWXYZabcdefghijklmnopqrstuvwxyz0123456789+/";
    let mut z: u64 = if n < 0 { (((-n) as u64) << 1) | 1 } else { (n as u64) << 1 };
    loop {
        let mut d = (z & 31) as usize;
        z >>= 5;
        if z != 0 {
            d |= 32;
        }
        out.push(B64[d] as char);
        if z == 0 {
            break;
        }
    }
}

fn fmap_json(f: &str) -> Option<serde_json::Value> {
    if f == "~" {
        return Some(serde_json::Value::Null);
    }
    let (ns, es) = f.split_once('=')?;
    let names: Vec<String> = if ns.is_empty() { vec![] } else { ns.split('+').map(s_of).collect::<Option<_>>()? };
    let mut m = String::new();
    let (mut pl, mut pc, mut pn) = (1i64, 0i64, 0i64);
    if !es.is_empty() {
        for (k, e) in es.split('+').enumerate() {
            let v: Vec<i64> = e.split('.').map(|x| x.parse::<i64>().unwrap_or(0)).collect();
            if v.len() != 3 {
                return None;
            }
            if k > 0 {
                m.push(',');
            }
            vlq(v[1] - pc, &mut m);
            vlq(v[2] - pn, &mut m);
            vlq(v[0] - pl, &mut m);
            pl = v[0];
            pc = v[1];
            pn = v[2];
        }
    }
    Some(serde_json::json!([{"names": names, "mappings": m}]))
}

fn run_hermes(t: &[&str]) -> String {
    let (Some(sources), Some(names), Some(prefixes)) = (list_of(t[1]), list_of(t[2]), list_of(t[7])) else { return "skip".into() };
    if prefixes.iter().any(|p| p == "~") {
        return "skip".into();
    }
    let fmaps: Vec<serde_json::Value> = if t[3] == "_" {
        vec![]
    } else {
        match t[3].split(',').map(fmap_json).collect::<Option<Vec<_>>>() {
            Some(v) => v,
            None => return "skip".into(),
        }
    };
    let toks = parse_toks(t[4]);
    // the `mappings` string comes from the crate's own encoder (validated by C01/C03)
    let plain = SourceMap::new(
        None,
        toks,
        names.iter().map(|x| Arc::from(x.as_str())).collect(),
        sources.iter().map(|x| Arc::from(x.as_str())).collect(),
        None,
    );
    let mut buf = vec![];
    if plain.to_writer(&mut buf).is_err() {
        return "skip".into();
    }
    let Ok(mut v) = serde_json::from_slice::<serde_json::Value>(&buf) else { return "skip".into() };
    v["x_facebook_sources"] = serde_json::Value::Array(fmaps);
    let h = match sourcemap::decode_slice(v.to_string().as_bytes()) {
        Ok(DecodedMap::Hermes(h)) => h,
        Ok(_) => return "skip".into(),
        Err(_) => return "skip".into(), // ids out of range: not a decodable document
    };
    let before: Vec<String> = h.tokens().map(|tk| show_opt(h.get_scope_for_token(tk))).collect();
    let pre: Vec<&str> = prefixes.iter().map(|x| x.as_str()).collect();
    let h2 = match h.rewrite(&opts(t[5] != "0", t[6] != "0", &pre)) {
        Ok(x) => x,
        Err(e) => return format!("err {}", err_kind(&e)),
    };
    let after: Vec<String> = h2.tokens().map(|tk| show_opt(h2.get_scope_for_token(tk))).collect();
    if before.len() != after.len() {
        return format!("ok token-count-changed {} {}", before.len(), after.len());
    }
    let mut out2 = vec![];
    let x = if h2.to_writer(&mut out2).is_ok() {
        match serde_json::from_slice::<serde_json::Value>(&out2) {
            Ok(v2) => match v2.get("x_facebook_sources").and_then(|a| a.as_array()) {
                Some(a) => a.iter().map(|e| if e.is_null() { "0" } else { "1" }).collect::<Vec<_>>().join(""),
                None => "~".into(),
            },
            Err(_) => "badjson".into(),
        }
    } else {
        "unwritable".into()
    };
    let pairs: Vec<String> = before.iter().zip(after.iter()).map(|(a, b)| format!("{a}/{b}")).collect();
    format!("ok {} X={}", show_items(pairs, ";"), if x.is_empty() { "_".into() } else { x })
}

pub fn run(t: &[&str]) -> String {
    match t[0] {
        "rw.run" | "rw.raw" => {
            if t.len() != 12 {
                return "bad-op".into();
            }
            let Some(inp) = build(t) else { return "skip".into() };
            let pre: Vec<&str> = inp.prefixes.iter().map(|x| x.as_str()).collect();
            match inp.sm.rewrite(&opts(inp.with_names, inp.with_contents, &pre)) {
                Ok(sm) => {
                    if t[0] == "rw.run" {
                        show_resolved(&sm)
                    } else {
                        show_raw(&sm)
                    }
                }
                Err(e) => format!("err {}", err_kind(&e)),
            }
        }
        "rw.hermes" => {
            if t.len() != 8 {
                return "bad-op".into();
            }
            run_hermes(t)
        }
        _ => "bad-op".into(),
    }
}
