//! name.resolve (C17): function-name resolution through the public API
//! (`SourceView::new`, `SourceMap::new`, `SourceMap::get_original_function_name`).
//!
//!   name.resolve <text-hex> <tokens> <nnames> <queries> <pool>
//!     tokens  : `dl:dc:sl:sc:src:name:rng;…`
//!     queries : `line:col:<name-hex>;…`
//!     pool    : `codepoint:flags,…` for every non-ASCII character of the text and the names;
//!               flags: 1 = valid identifier start, 2 = valid identifier continue, 4 = whitespace.
//! The Lean model is parametric in the character predicates; the driver instantiates them from
//! `pool`.  This op cross-checks every pool entry against the crate (probing the private
//! `is_valid_start` / `is_valid_continue` through `get_original_function_name` itself) and against
//! `char::is_whitespace`, and answers `pool-mismatch …` if the table in the case line is wrong.
use crate::ops::map::{names, parse_toks};
use crate::util::*;
use sourcemap::{DecodedMap, RawToken, SourceMap, SourceView};
use std::sync::Arc;

fn tok(col: u32, name: u32) -> RawToken {
    RawToken { dst_line: 0, dst_col: col, src_line: 0, src_col: 0, src_id: !0, name_id: name, is_range: false }
}

/// does the crate accept `ident` as an identifier *and* read it back from the text `function <ident>`?
fn probe_ident(ident: &str) -> bool {
    let text = format!("function {ident}");
    let sv = SourceView::new(Arc::from(text.as_str()));
    let sm = SourceMap::new(None, vec![tok(0, !0), tok(9, 0)], names(1, "n"), vec![], None);
    sm.get_original_function_name(0, 9, ident, &sv) == Some("n0")
}

fn probe_start(c: char) -> bool {
    probe_ident(&c.to_string())
}

fn probe_continue(c: char) -> bool {
    // whitespace would end the word before `strip_identifier` sees the character
    !c.is_whitespace() && probe_ident(&format!("a{c}"))
}

fn check_pool(pool: &[(u32, u32)], text: &str, qnames: &[String]) -> Option<String> {
    for c in 0u8..128 {
        let c = c as char;
        let ws = (9..=13).contains(&(c as u32)) || c == ' ';
        if c.is_whitespace() != ws {
            return Some(format!("pool-mismatch ascii-ws {}", c as u32));
        }
    }
    for &(cp, fl) in pool {
        let Some(c) = char::from_u32(cp) else { return Some(format!("pool-mismatch not-a-char {cp}")) };
        let ws = c.is_whitespace();
        if ws != (fl & 4 != 0) {
            return Some(format!("pool-mismatch ws {cp}"));
        }
        if probe_start(c) != (fl & 1 != 0) {
            return Some(format!("pool-mismatch start {cp}"));
        }
        // a whitespace character can never be observed as a continue character; the flag is free
        if !ws && probe_continue(c) != (fl & 2 != 0 || cp == 0x200c || cp == 0x200d) {
            return Some(format!("pool-mismatch continue {cp}"));
        }
    }
    let listed = |c: char| c.is_ascii() || pool.iter().any(|&(cp, _)| cp == c as u32);
    for c in text.chars().chain(qnames.iter().flat_map(|n| n.chars())) {
        if !listed(c) {
            return Some(format!("pool-missing {}", c as u32));
        }
    }
    None
}

pub fn run(t: &[&str]) -> String {
    match t[0] {
        "name.resolve" => {
            if t.len() != 6 {
                return "bad-op".into();
            }
            let Some(text) = hex_str(t[1]) else { return "skip".into() };
            let toks = parse_toks(t[2]);
            let nn: usize = t[3].parse().unwrap_or(0);
            let mut queries: Vec<(u32, u32, String)> = vec![];
            if t[4] != "-" {
                for q in t[4].split(';') {
                    let f: Vec<&str> = q.split(':').collect();
                    if f.len() != 3 {
                        return "bad-op".into();
                    }
                    let Some(name) = hex_str(f[2]) else { return "skip".into() };
                    queries.push((f[0].parse().unwrap_or(0), f[1].parse().unwrap_or(0), name));
                }
            }
            let pool: Vec<(u32, u32)> = split_list(t[5])
                .iter()
                .map(|e| {
                    let f: Vec<u32> = e.split(':').map(|x| x.parse::<u32>().unwrap_or(0)).collect();
                    (f.first().copied().unwrap_or(0), f.get(1).copied().unwrap_or(0))
                })
                .collect();
            let qn: Vec<String> = queries.iter().map(|q| q.2.clone()).collect();
            if let Some(bad) = check_pool(&pool, &text, &qn) {
                return bad;
            }
            let sv = SourceView::new(Arc::from(text.as_str()));
            let sm = SourceMap::new(None, toks, names(nn, "n"), vec![], None);
            let rs: Vec<String> = queries
                .iter()
                .map(|(l, c, n)| match sm.get_original_function_name(*l, *c, n, &sv) {
                    Some(s) => s.to_string(),
                    None => "-".to_string(),
                })
                .collect();
            // the same questions through `DecodedMap`: identical answers when name and view are given, none otherwise
            let dm = DecodedMap::Regular(sm.clone());
            for (k, (l, c, n)) in queries.iter().enumerate() {
                let d = dm.get_original_function_name(*l, *c, Some(n), Some(&sv)).map(|s| s.to_string()).unwrap_or("-".into());
                if d != rs[k] {
                    return "err dispatch-differs".into();
                }
                if dm.get_original_function_name(*l, *c, None, Some(&sv)).is_some() || dm.get_original_function_name(*l, *c, Some(n), None).is_some() {
                    return "err dispatch-answers-without-inputs".into();
                }
            }
            // a clone of the (by now partially indexed) view is a view of the same text: the same answers, whatever it
            // inherited of the original's line index
            let svc = sv.clone();
            for (k, (l, c, n)) in queries.iter().enumerate() {
                let d = sm.get_original_function_name(*l, *c, n, &svc).map(|s| s.to_string()).unwrap_or("-".into());
                if d != rs[k] {
                    return "err cloned-view-differs".into();
                }
            }
            format!("ok {}", show_list(&rs))
        }
        _ => "bad-op".into(),
    }
}
