//! adj.run <orig tokens> <adjustment tokens>: `SourceMap::adjust_mappings` through the public API.
//! Both maps are built with `SourceMap::new` (which orders the tokens by generated position; the
//! adjustment tokens are re-ordered by original position inside `adjust_mappings`).  Output: the
//! resulting tokens in canonical order and whether sources, names and contents are untouched.
use super::map::{names, parse_toks, show_toks_canon};
use sourcemap::SourceMap;
use std::sync::Arc;

pub fn run(t: &[&str]) -> String {
    match t[0] {
        "adj.run" => {
            let orig = parse_toks(t[1]);
            let adj = parse_toks(t[2]);
            let contents: Vec<Option<Arc<str>>> = vec![Some("c0".into()), None, Some("c2".into())];
            let mut sm = SourceMap::new(Some("f.js".into()), orig, names(3, "n"), names(3, "s"), Some(contents));
            let am = SourceMap::new(None, adj, names(1, "x"), names(1, "y"), None);
            let before: (Vec<String>, Vec<String>, Vec<Option<String>>, Option<String>) = snapshot(&sm);
            sm.adjust_mappings(&am);
            let untouched = snapshot(&sm) == before;
            format!("ok {} u={}", show_toks_canon(&sm), untouched as u8)
        }
        _ => "bad-op".into(),
    }
}

fn snapshot(sm: &SourceMap) -> (Vec<String>, Vec<String>, Vec<Option<String>>, Option<String>) {
    (
        sm.sources().map(|s| s.to_string()).collect(),
        sm.names().map(|s| s.to_string()).collect(),
        sm.source_contents().map(|c| c.map(|s| s.to_string())).collect(),
        sm.get_file().map(|s| s.to_string()),
    )
}
