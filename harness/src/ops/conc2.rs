//! conc.trace / conc.stress (C16), additions to conc.run (ops/conc.rs).
//!
//! `conc.trace <text-hex> <programs> <schedule>`
//!   exactly the semantics of `conc.run` (real threads parked at the pause points of
//!   SourceView::get_line, released in the order of the schedule; afterwards the remaining threads run
//!   to completion in id order), but the output also shows WHICH pause points every thread went
//!   through, so that the path the real code took inside get_line (cache hit / "fetched everything" /
//!   indexing under the lock) can be compared with the path the model takes under the same schedule:
//!   output: `ok <thread results ;> usable=<get_line(0) afterwards> trace=<per thread ;: pause points
//!            joined by '.': `s` start of a later call, `1` yield_point(1), `2` yield_point(2); `-` none>`
//!
//! `conc.stress <text-hex> <threads> <rounds> <seed>`
//!   free-running (no hook): in every round a fresh view is shared by <threads> threads that start
//!   together and make up to 3 calls each (get_line for present and absent indices, line_count,
//!   lines()), chosen by an LCG from the seed; every result is compared with the answer of a fresh view
//!   used by a single thread; after each round the view is asked for line 0 again.
//!   output: `ok rounds=<r> mismatches=<m> panics=<p> unusable=<u>`
use crate::util::*;
use sourcemap::SourceView;
use std::cell::Cell;
use std::panic::{catch_unwind, AssertUnwindSafe};
use std::sync::mpsc::{channel, Receiver, Sender};
use std::sync::{Arc, Barrier, Mutex};

thread_local! {
    static WORKER: Cell<Option<usize>> = const { Cell::new(None) };
}

struct Ctl {
    go: Vec<Mutex<Receiver<()>>>,
    report: Mutex<Sender<(usize, bool)>>,
    trace: Mutex<Vec<Vec<&'static str>>>,
}

fn pause(ctl: &Ctl, me: usize, what: &'static str) {
    ctl.trace.lock().unwrap()[me].push(what);
    ctl.report.lock().unwrap().send((me, false)).unwrap();
    ctl.go[me].lock().unwrap().recv().unwrap();
}

fn show_line(l: Option<&str>) -> String {
    match l {
        None => "-".into(),
        Some(s) => format!("l{}", if s.is_empty() { "".into() } else { to_hex(s.as_bytes()) }),
    }
}

fn do_call(view: &SourceView, call: &str) -> String {
    if let Some(idx) = call.strip_prefix('g') {
        show_line(view.get_line(idx.parse::<u32>().unwrap_or(0)))
    } else if call == "c" {
        format!("n{}", view.line_count())
    } else {
        let v: Vec<String> = view.lines().map(|l| show_line(Some(l))).collect();
        format!("[{}]", v.join("/"))
    }
}

pub fn run(t: &[&str]) -> String {
    match t[0] {
        "conc.trace" => trace(t),
        "conc.stress" => stress(t),
        _ => "bad-op".into(),
    }
}

fn trace(t: &[&str]) -> String {
    let Some(text) = hex_str(t[1]) else { return "skip".into() };
    let programs: Vec<Vec<String>> = t[2].split(';').map(|p| split_list(p).iter().map(|s| s.to_string()).collect()).collect();
    let schedule: Vec<usize> = split_list(t[3]).iter().map(|x| x.parse().unwrap_or(0)).collect();
    let n = programs.len();
    let view = Arc::new(SourceView::new(text.into()));
    let (rtx, rrx) = channel::<(usize, bool)>();
    let mut gos = vec![];
    let mut go_tx = vec![];
    for _ in 0..n {
        let (tx, rx) = channel::<()>();
        go_tx.push(tx);
        gos.push(Mutex::new(rx));
    }
    let ctl = Arc::new(Ctl { go: gos, report: Mutex::new(rtx), trace: Mutex::new(vec![vec![]; n]) });
    {
        let ctl = ctl.clone();
        sourcemap::verif_hooks::set_hook(Some(Arc::new(move |point: u32| {
            if let Some(me) = WORKER.with(|w| w.get()) {
                pause(&ctl, me, if point == 1 { "1" } else if point == 2 { "2" } else { "?" });
            }
        })));
    }
    let results: Arc<Mutex<Vec<Vec<String>>>> = Arc::new(Mutex::new(vec![vec![]; n]));
    let mut handles = vec![];
    for (i, prog) in programs.iter().cloned().enumerate() {
        let view = view.clone();
        let ctl = ctl.clone();
        let results = results.clone();
        handles.push(std::thread::spawn(move || {
            WORKER.with(|w| w.set(Some(i)));
            ctl.go[i].lock().unwrap().recv().unwrap();
            for (k, call) in prog.iter().enumerate() {
                if k > 0 {
                    pause(&ctl, i, "s");
                }
                match catch_unwind(AssertUnwindSafe(|| do_call(&view, call))) {
                    Ok(s) => results.lock().unwrap()[i].push(s),
                    Err(_) => {
                        results.lock().unwrap()[i].push("P".into());
                        break;
                    }
                }
            }
            WORKER.with(|w| w.set(None));
            ctl.report.lock().unwrap().send((i, true)).unwrap();
        }));
    }
    let mut finished = vec![false; n];
    let mut step = |i: usize, finished: &mut Vec<bool>| {
        if finished[i] {
            return;
        }
        go_tx[i].send(()).unwrap();
        let (who, fin) = rrx.recv().unwrap();
        debug_assert_eq!(who, i);
        if fin {
            finished[who] = true;
        }
    };
    for &s in &schedule {
        if s < n {
            step(s, &mut finished);
        }
    }
    for i in 0..n {
        while !finished[i] {
            step(i, &mut finished);
        }
    }
    for h in handles {
        let _ = h.join();
    }
    sourcemap::verif_hooks::set_hook(None);
    let usable = match catch_unwind(AssertUnwindSafe(|| show_line(view.get_line(0)))) {
        Ok(s) => s,
        Err(_) => "P".into(),
    };
    let res = results.lock().unwrap();
    let per: Vec<String> = res.iter().map(|v| if v.is_empty() { "-".into() } else { v.join(",") }).collect();
    let tr = ctl.trace.lock().unwrap();
    let trs: Vec<String> = tr.iter().map(|v| if v.is_empty() { "-".into() } else { v.join(".") }).collect();
    format!("ok {} usable={} trace={}", per.join(";"), usable, trs.join(";"))
}

fn stress(t: &[&str]) -> String {
    let Some(text) = hex_str(t[1]) else { return "skip".into() };
    let nthreads: usize = t[2].parse().unwrap_or(2).clamp(1, 16);
    let rounds: usize = t[3].parse().unwrap_or(1).min(100_000);
    let seed: u64 = t[4].parse().unwrap_or(0);
    sourcemap::verif_hooks::set_hook(None);
    // the sequential answers: a fresh view used by this thread alone
    let seq = SourceView::new(text.clone().into());
    let nlines = seq.line_count();
    let calls: Vec<String> = {
        // long texts (clone / indexing races need an index that takes a while to build): a handful of positions
        let mut c: Vec<String> = if nlines > 2000 {
            [0, nlines / 2, nlines - 1, nlines, nlines + 1].iter().map(|i| format!("g{}", i)).collect()
        } else {
            (0..nlines + 2).map(|i| format!("g{}", i)).collect()
        };
        c.push("g4294967295".into());
        c.push("c".into());
        c.push("a".into());
        c
    };
    let expected: Vec<String> = calls.iter().map(|c| do_call(&SourceView::new(text.clone().into()), c)).collect();
    let calls = Arc::new(calls);
    let expected = Arc::new(expected);
    let mut mismatches = 0usize;
    let mut panics = 0usize;
    let mut unusable = 0usize;
    for r in 0..rounds {
        let view = Arc::new(SourceView::new(text.clone().into()));
        let barrier = Arc::new(Barrier::new(nthreads));
        let mut hs = vec![];
        for i in 0..nthreads {
            let view = view.clone();
            let barrier = barrier.clone();
            let calls = calls.clone();
            let expected = expected.clone();
            let mut x = seed
                .wrapping_mul(6364136223846793005)
                .wrapping_add((r as u64) << 20 | i as u64)
                .wrapping_mul(2862933555777941757)
                .wrapping_add(3037000493);
            hs.push(std::thread::spawn(move || {
                let mut next = || {
                    x = x.wrapping_mul(6364136223846793005).wrapping_add(1442695040888963407);
                    (x >> 33) as usize
                };
                let k = 1 + next() % 3;
                let picks: Vec<usize> = (0..k).map(|_| next() % calls.len()).collect();
                let mut bad = 0usize;
                let mut pan = 0usize;
                barrier.wait();
                for p in picks {
                    match catch_unwind(AssertUnwindSafe(|| do_call(&view, &calls[p]))) {
                        Ok(s) => {
                            if s != expected[p] {
                                bad += 1;
                            }
                        }
                        Err(_) => {
                            pan += 1;
                            break;
                        }
                    }
                }
                (bad, pan)
            }));
        }
        // meanwhile another thread keeps cloning the shared view: a clone is a view of its own and must answer like a
        // fresh one whatever the original was doing at the time (the line cache and the progress counter are two
        // pieces of state; copying them at different instants would not give a consistent view)
        let stop = Arc::new(std::sync::atomic::AtomicBool::new(false));
        let cloner = {
            let view = view.clone();
            let stop = stop.clone();
            std::thread::spawn(move || {
                let mut kept: Vec<SourceView> = vec![];
                while !stop.load(std::sync::atomic::Ordering::Relaxed) {
                    kept.push((*view).clone());
                    if kept.len() > 8 {
                        kept.remove(0);
                    }
                }
                kept.push((*view).clone());
                kept
            })
        };
        for h in hs {
            match h.join() {
                Ok((b, p)) => {
                    mismatches += b;
                    panics += p;
                }
                Err(_) => panics += 1,
            }
        }
        stop.store(true, std::sync::atomic::Ordering::Relaxed);
        match cloner.join() {
            Ok(kept) => {
                let ci = calls.len() - 2; // "c"
                let ai = calls.len() - 1; // "a"
                for cl in kept {
                    match catch_unwind(AssertUnwindSafe(|| (do_call(&cl, "c"), do_call(&cl, "a")))) {
                        Ok((c, a)) => {
                            if c != expected[ci] || a != expected[ai] {
                                mismatches += 1;
                            }
                        }
                        Err(_) => panics += 1,
                    }
                }
            }
            Err(_) => panics += 1,
        }
        match catch_unwind(AssertUnwindSafe(|| show_line(view.get_line(0)))) {
            Ok(s) => {
                if s != expected[0] {
                    unusable += 1;
                }
            }
            Err(_) => unusable += 1,
        }
    }
    format!("ok rounds={} mismatches={} panics={} unusable={}", rounds, mismatches, panics, unusable)
}
