//! doc.dec / doc.rt / doc.enc (C02 / C01 / C03): the document level of the format through the
//! public API (`decode_slice`, `DecodedMap::to_writer`, accessors).
//!
//! The case line carries a *structured description* of the JSON document (lean/SmVerif/Model/
//! DrvDoc.lean reads the same tokens); this file renders it to JSON text - keys in the listed order,
//! optional junk header, three whitespace styles - and feeds the bytes to the crate.
//!
//!   <op> <hdrhex>:<ws>[:<mode>] { item* }
//!   mode `new`: the description is not rendered to JSON but handed to `SourceMap::new` + setters
//!   (`toks=<dl:dc:sl:sc:src:name:rng;…>` instead of `map=`; sources and names plain strings): maps that no
//!   document decodes to (exact duplicates, unresolvable names, hidden fields).
//!   doc.prod <what> { item* } [{ item* }]: decode, apply rewrite / flatten / adjust_mappings / the builder, and print
//!   the resulting map as a `new`-mode description (used by the C03 generator to harvest such maps).
//!   item := ver=N|null  file=<jval>|null  srcs=[<ostr,..>]|null  root=<str>|null  sc=[<ostr,..>]|null
//!           names=[<jval,..>]|null  rm=<str>|null  map=<str>|null  amap=<abstract deltas> (not rendered)
//!           ign=[<n,..>]|null  fbo=[<n|null,..>]|null  mmp=[<str,..>]|null  fbs=[<fb,..>]|null
//!           did=<str>|null  didn=<str>|null  x=<str>   secs=null | secs=[ section* ]
//!   section := ( off=L:C  [url=<str>|null]  [map=null | map <doc>] )
//!   str := s<hex>   jval := s<hex> | n<number text> | null | t | a | o
//!   fb := null | m<meta+meta..>   meta := <names .-joined hex, [] = no names>/<mappings hex>
use crate::util::*;
use sourcemap::{decode_slice, DecodedMap, RawToken, SourceMap, SourceMapIndex};

// ---------------------------------------------------------------- description -> JSON text

pub struct Rd<'a> {
    t: &'a [&'a str],
    i: usize,
}

fn jstr(hex: &str) -> Option<String> {
    let s = String::from_utf8(parse_hex(if hex.is_empty() { "-" } else { hex })).ok()?;
    serde_json::to_string(&s).ok()
}

fn jval(v: &str) -> Option<String> {
    Some(match v {
        "null" => "null".into(),
        "t" => "true".into(),
        "a" => "[]".into(),
        "o" => "{}".into(),
        _ if v.starts_with('s') => jstr(&v[1..])?,
        _ if v.starts_with('n') => v[1..].to_string(),
        _ => return None,
    })
}

fn jlist(v: &str, f: &dyn Fn(&str) -> Option<String>, ws: u8) -> Option<String> {
    if v == "null" {
        return Some("null".into());
    }
    if v == "[]" {
        return Some("[]".into());
    }
    let v = v.strip_prefix('[')?.strip_suffix(']')?;
    let items: Option<Vec<String>> = v.split(',').map(f).collect();
    let sep = if ws == 0 { "," } else { ", " };
    Some(format!("[{}]", items?.join(sep)))
}

fn ostr(v: &str) -> Option<String> {
    if v == "null" {
        Some("null".into())
    } else if let Some(h) = v.strip_prefix('s') {
        jstr(h)
    } else {
        None
    }
}

fn onat(v: &str) -> Option<String> {
    if v == "null" {
        Some("null".into())
    } else {
        v.parse::<u64>().ok().map(|x| x.to_string())
    }
}

fn fb_entry(v: &str) -> Option<String> {
    if v == "null" {
        return Some("null".into());
    }
    let body = v.strip_prefix('m')?;
    if body.is_empty() {
        return Some("[]".into());
    }
    let mut metas = vec![];
    for m in body.split('+') {
        let (ns, mp) = m.split_once('/')?;
        let names: Vec<String> = if ns == "[]" {
            vec![]
        } else {
            ns.split('.').map(|h| jstr(if h == "-" { "" } else { h })).collect::<Option<Vec<_>>>()?
        };
        metas.push(format!("{{\"names\":[{}],\"mappings\":{}}}", names.join(","), jstr(if mp == "-" { "" } else { mp })?));
    }
    Some(format!("[{}]", metas.join(",")))
}

impl<'a> Rd<'a> {
    fn next(&mut self) -> Option<&'a str> {
        let x = self.t.get(self.i).copied();
        self.i += 1;
        x
    }
    /// renders one `{ … }`; collects (mappings text, abstract deltas) pairs for the VLQ cross-check
    fn doc(&mut self, ws: u8, depth: usize, amaps: &mut Vec<(String, String)>) -> Option<String> {
        if self.next()? != "{" {
            return None;
        }
        let mut members: Vec<String> = vec![];
        let mut map_txt: Option<String> = None;
        let mut amap: Option<String> = None;
        loop {
            let tk = self.next()?;
            if tk == "}" {
                break;
            }
            if tk == "secs=[" {
                let mut secs = vec![];
                loop {
                    let s = self.next()?;
                    if s == "]" {
                        break;
                    }
                    if s != "(" {
                        return None;
                    }
                    let mut sm: Vec<String> = vec![];
                    loop {
                        let it = self.next()?;
                        if it == ")" {
                            break;
                        }
                        if it == "map" {
                            let d = self.doc(ws, depth + 1, amaps)?;
                            sm.push(member("map", &d, ws));
                            continue;
                        }
                        let (k, v) = it.split_once('=')?;
                        match k {
                            "off" => {
                                let (l, c) = v.split_once(':')?;
                                sm.push(member("offset", &format!("{{\"line\":{},\"column\":{}}}", l, c), ws));
                            }
                            "url" => sm.push(member("url", &ostr(v)?, ws)),
                            "map" if v == "null" => sm.push(member("map", "null", ws)),
                            _ => return None,
                        }
                    }
                    secs.push(object(&sm, ws, depth + 1));
                }
                members.push(member("sections", &format!("[{}]", secs.join(",")), ws));
                continue;
            }
            let (k, v) = tk.split_once('=')?;
            let (key, val): (&str, String) = match k {
                "ver" => ("version", v.to_string()),
                "file" => ("file", jval(v)?),
                "srcs" => ("sources", jlist(v, &ostr, ws)?),
                "root" => ("sourceRoot", ostr(v)?),
                "sc" => ("sourcesContent", jlist(v, &ostr, ws)?),
                "names" => ("names", jlist(v, &jval, ws)?),
                "rm" => ("rangeMappings", ostr(v)?),
                "map" => {
                    if let Some(h) = v.strip_prefix('s') {
                        map_txt = String::from_utf8(parse_hex(if h.is_empty() { "-" } else { h })).ok();
                    }
                    ("mappings", ostr(v)?)
                }
                "amap" => {
                    amap = Some(v.to_string());
                    continue;
                }
                "ign" => ("ignoreList", jlist(v, &onat, ws)?),
                "fbo" => ("x_facebook_offsets", jlist(v, &onat, ws)?),
                "mmp" => ("x_metro_module_paths", jlist(v, &ostr, ws)?),
                "fbs" => ("x_facebook_sources", jlist(v, &fb_entry, ws)?),
                "did" => ("debug_id", ostr(v)?),
                "didn" => ("debugId", ostr(v)?),
                "x" => ("x_unknown_key", ostr(v)?),
                "secs" if v == "null" => ("sections", "null".into()),
                _ => return None,
            };
            members.push(member(key, &val, ws));
        }
        if let (Some(m), Some(a)) = (map_txt, amap) {
            amaps.push((m, a));
        }
        Some(object(&members, ws, depth))
    }
}

fn member(k: &str, v: &str, ws: u8) -> String {
    match ws {
        0 => format!("\"{}\":{}", k, v),
        1 => format!("\"{}\" : {}", k, v),
        _ => format!("\"{}\":\t{}", k, v),
    }
}

fn object(members: &[String], ws: u8, depth: usize) -> String {
    match ws {
        0 => format!("{{{}}}", members.join(",")),
        1 => format!("{{ {} }}", members.join(" , ")),
        _ => {
            let ind = "  ".repeat(depth + 1);
            format!("{{\r\n{}{}\n{}}}", ind, members.join(&format!(",\n{}", ind)), "  ".repeat(depth))
        }
    }
}

/// the generator's own VLQ text against the third-party `vlq` crate: every segment decodes to the
/// abstract fields, and the crate's encoding of the fields is the text
fn vlq_cross_check(text: &str, amap: &str) -> bool {
    let tl: Vec<&str> = text.split(';').collect();
    let al: Vec<&str> = amap.split(';').collect();
    if tl.len() != al.len() {
        return false;
    }
    for (tline, aline) in tl.iter().zip(al.iter()) {
        let ts: Vec<&str> = tline.split(',').collect();
        let as_: Vec<&str> = aline.split(',').collect();
        if ts.len() != as_.len() {
            return false;
        }
        for (tseg, aseg) in ts.iter().zip(as_.iter()) {
            let want: Vec<i64> = if aseg.is_empty() || *aseg == "-" { vec![] } else { aseg.split(':').map(|x| x.parse::<i64>().unwrap_or(i64::MIN)).collect() };
            let mut it = tseg.bytes();
            let mut got = vec![];
            let mut peek = it.clone();
            while peek.next().is_some() {
                match vlq::decode(&mut it) {
                    Ok(v) => got.push(v),
                    Err(_) => return false,
                }
                peek = it.clone();
            }
            if got != want {
                return false;
            }
            let mut enc = vec![];
            for v in &want {
                if vlq::encode(*v, &mut enc).is_err() {
                    return false;
                }
            }
            if enc != tseg.as_bytes() {
                return false;
            }
        }
    }
    true
}

// ---------------------------------------------------------------- dumps of decoded maps

fn o(x: Option<&str>) -> String {
    match x {
        None => "~".into(),
        Some(s) => to_hex(s.as_bytes()),
    }
}
fn lst(xs: Vec<String>, sep: &str) -> String {
    if xs.is_empty() { ".".into() } else { xs.join(sep) }
}

fn tok_full(sm: &SourceMap, r: &RawToken, src: Option<&str>, name: Option<&str>) -> String {
    let _ = sm;
    format!("{}:{}:{}:{}:{}:{}:{}:{}:{}", r.dst_line, r.dst_col, r.src_line, r.src_col, r.src_id, r.name_id, r.is_range as u8, o(src), o(name))
}

/// full dump of a regular map (doc.dec): everything the accessors show
fn dump_regular(sm: &SourceMap, tag: char) -> String {
    let n = sm.get_source_count();
    let srcs: Vec<String> = (0..n).map(|i| o(sm.get_source(i))).collect();
    let mut plain = sm.clone();
    plain.set_source_root(None::<&str>);
    let raw: Vec<String> = (0..n).map(|i| o(plain.get_source(i))).collect();
    let names: Vec<String> = sm.names().map(|x| to_hex(x.as_bytes())).collect();
    let sc: Vec<String> = (0..n + 4).map(|i| o(sm.get_source_contents(i))).collect();
    let ign: Vec<String> = sm.ignore_list().map(|x| x.to_string()).collect();
    let mut toks: Vec<(RawToken, String)> = sm.tokens().map(|t| (t.get_raw_token(), tok_full(sm, &t.get_raw_token(), t.get_source(), t.get_name()))).collect();
    let sorted = toks.windows(2).all(|w| (w[0].0.dst_line, w[0].0.dst_col) <= (w[1].0.dst_line, w[1].0.dst_col));
    toks.sort_by_key(|(t, _)| (t.dst_line, t.dst_col, t.src_line, t.src_col, t.src_id, t.name_id, t.is_range));
    let ts: Vec<String> = toks.into_iter().map(|x| x.1).collect();
    format!(
        "{}{{f={};r={};d={};s={};w={};n={};c={};i={};t={}{}}}",
        tag,
        o(sm.get_file()),
        o(sm.get_source_root()),
        o(sm.get_debug_id().map(|d| d.to_string()).as_deref()),
        lst(srcs, ","),
        lst(raw, ","),
        lst(names, ","),
        lst(sc, ","),
        lst(ign, ","),
        if !sorted { "UNSORTED" } else { crate::util::order_marker(sm) },
        lst(ts, "/")
    )
}

fn dump_index(smi: &SourceMapIndex, full: bool) -> String {
    let mut secs = String::new();
    for s in smi.sections() {
        let m = match s.get_sourcemap() {
            None => "~".to_string(),
            Some(d) => if full { dump(d) } else { obs(d) },
        };
        secs.push_str(&format!("[{}:{};{};{}]", s.get_offset_line(), s.get_offset_col(), o(s.get_url()), m));
    }
    if secs.is_empty() {
        secs.push('.');
    }
    if full {
        let fbo = match smi.x_facebook_offsets() {
            None => "~".to_string(),
            Some(v) => lst(v.iter().map(|x| x.map(|n| n.to_string()).unwrap_or("~".into())).collect(), ","),
        };
        let mmp = match smi.x_metro_module_paths() {
            None => "~".to_string(),
            Some(v) => lst(v.iter().map(|x| to_hex(x.as_bytes())).collect(), ","),
        };
        format!("I{{f={};o={};p={};S={}}}", o(smi.get_file()), fbo, mmp, secs)
    } else {
        format!("I{{f={};S={}}}", o(smi.get_file()), secs)
    }
}

pub fn dump(d: &DecodedMap) -> String {
    match d {
        DecodedMap::Regular(sm) => dump_regular(sm, 'R'),
        DecodedMap::Hermes(smh) => dump_regular(smh, 'H'),
        DecodedMap::Index(smi) => dump_index(smi, true),
    }
}

/// observational view (doc.rt, C01): tokens after removal of exact consecutive duplicates (in the view), each as
/// (generated position, source *name*, original position if it has a source, name, range flag);
/// sources as read; names; contents per source; file; root; debug id; ignore list
fn obs_regular(sm: &SourceMap, tag: char) -> String {
    let n = sm.get_source_count();
    let srcs: Vec<String> = (0..n).map(|i| o(sm.get_source(i))).collect();
    let names: Vec<String> = sm.names().map(|x| to_hex(x.as_bytes())).collect();
    let sc: Vec<String> = sm.source_contents().map(o).collect();
    let ign: Vec<String> = sm.ignore_list().map(|x| x.to_string()).collect();
    // duplicates are removed in the *view*: two neighbouring tokens that show the same through every
    // accessor count as exact duplicates (hidden fields of source-less tokens are not part of the view)
    let mut ts: Vec<String> = vec![];
    for t in sm.tokens() {
        let r = t.get_raw_token();
        let v = match t.get_source() {
            None if !t.has_source() => format!("{}:{}:~:-:-:~:{}", r.dst_line, r.dst_col, r.is_range as u8),
            s => format!("{}:{}:{}:{}:{}:{}:{}", r.dst_line, r.dst_col, o(s), r.src_line, r.src_col, o(t.get_name()), r.is_range as u8),
        };
        if ts.last() != Some(&v) {
            ts.push(v);
        }
    }
    format!(
        "{}{{f={};r={};d={};s={};n={};c={};i={};t={}}}",
        tag,
        o(sm.get_file()),
        o(sm.get_source_root()),
        o(sm.get_debug_id().map(|d| d.to_string()).as_deref()),
        lst(srcs, ","),
        lst(names, ","),
        lst(sc, ","),
        lst(ign, ","),
        lst(ts, "/")
    )
}

pub fn obs(d: &DecodedMap) -> String {
    match d {
        DecodedMap::Regular(sm) => obs_regular(sm, 'R'),
        DecodedMap::Hermes(smh) => obs_regular(smh, 'H'),
        DecodedMap::Index(smi) => dump_index(smi, false),
    }
}

// ---------------------------------------------------------------- the encoder's output as JSON

pub enum OV {
    Null,
    Bool(bool),
    Num(String),
    Str(String),
    Arr(Vec<OV>),
    Obj(Vec<(String, OV)>),
}

impl<'de> serde::Deserialize<'de> for OV {
    fn deserialize<D: serde::Deserializer<'de>>(d: D) -> Result<OV, D::Error> {
        struct V;
        impl<'de> serde::de::Visitor<'de> for V {
            type Value = OV;
            fn expecting(&self, f: &mut std::fmt::Formatter) -> std::fmt::Result {
                f.write_str("json")
            }
            fn visit_unit<E>(self) -> Result<OV, E> { Ok(OV::Null) }
            fn visit_none<E>(self) -> Result<OV, E> { Ok(OV::Null) }
            fn visit_bool<E>(self, b: bool) -> Result<OV, E> { Ok(OV::Bool(b)) }
            fn visit_u64<E>(self, n: u64) -> Result<OV, E> { Ok(OV::Num(n.to_string())) }
            fn visit_i64<E>(self, n: i64) -> Result<OV, E> { Ok(OV::Num(n.to_string())) }
            fn visit_f64<E>(self, n: f64) -> Result<OV, E> { Ok(OV::Num(n.to_string())) }
            fn visit_str<E>(self, s: &str) -> Result<OV, E> { Ok(OV::Str(s.to_string())) }
            fn visit_string<E>(self, s: String) -> Result<OV, E> { Ok(OV::Str(s)) }
            fn visit_seq<A: serde::de::SeqAccess<'de>>(self, mut a: A) -> Result<OV, A::Error> {
                let mut v = vec![];
                while let Some(x) = a.next_element::<OV>()? {
                    v.push(x);
                }
                Ok(OV::Arr(v))
            }
            fn visit_map<A: serde::de::MapAccess<'de>>(self, mut a: A) -> Result<OV, A::Error> {
                let mut v = vec![];
                while let Some((k, x)) = a.next_entry::<String, OV>()? {
                    v.push((k, x));
                }
                Ok(OV::Obj(v))
            }
        }
        d.deserialize_any(V)
    }
}

fn get<'a>(obj: &'a [(String, OV)], k: &str) -> Option<&'a OV> {
    obj.iter().find(|(kk, _)| kk == k).map(|(_, v)| v)
}
fn v_str(v: Option<&OV>) -> String {
    match v {
        None | Some(OV::Null) => "~".into(),
        Some(OV::Str(s)) => to_hex(s.as_bytes()),
        Some(_) => "?".into(),
    }
}
fn v_list(v: Option<&OV>, f: &dyn Fn(&OV) -> String, sep: &str) -> String {
    match v {
        None | Some(OV::Null) => "~".into(),
        Some(OV::Arr(a)) => lst(a.iter().map(f).collect(), sep),
        Some(_) => "?".into(),
    }
}
fn e_ostr(x: &OV) -> String { v_str(Some(x)) }
fn e_num(x: &OV) -> String {
    match x {
        OV::Num(n) => n.clone(),
        OV::Null => "~".into(),
        _ => "?".into(),
    }
}
fn e_fb(x: &OV) -> String {
    match x {
        OV::Null => "null".into(),
        OV::Arr(metas) => {
            let ms: Vec<String> = metas
                .iter()
                .map(|m| match m {
                    OV::Obj(o) => {
                        let names = match get(o, "names") {
                            Some(OV::Arr(ns)) if ns.is_empty() => "[]".to_string(),
                            Some(OV::Arr(ns)) => ns.iter().map(e_ostr).collect::<Vec<_>>().join("."),
                            _ => "?".into(),
                        };
                        format!("{}/{}", names, v_str(get(o, "mappings")))
                    }
                    _ => "?".into(),
                })
                .collect();
            format!("m{}", ms.join("+"))
        }
        _ => "?".into(),
    }
}

/// canonical view of one serialised map object (C03): keys in order, which of them are null, and
/// the values of every key the format knows
fn enc_view(v: &OV) -> String {
    let OV::Obj(obj) = v else { return "?notobject".into() };
    let keys: Vec<String> = obj.iter().map(|(k, _)| k.clone()).collect();
    let nulls: Vec<String> = obj.iter().filter(|(_, v)| matches!(v, OV::Null)).map(|(k, _)| k.clone()).collect();
    let secs = match get(obj, "sections") {
        None | Some(OV::Null) => "~".to_string(),
        Some(OV::Arr(a)) => {
            let mut s = String::new();
            for sec in a {
                let OV::Obj(so) = sec else { s.push_str("[?]"); continue };
                let sk: Vec<String> = so.iter().map(|(k, _)| k.clone()).collect();
                let sn: Vec<String> = so.iter().filter(|(_, v)| matches!(v, OV::Null)).map(|(k, _)| k.clone()).collect();
                let off = match get(so, "offset") {
                    Some(OV::Obj(oo)) => format!("{}:{}", get(oo, "line").map(e_num).unwrap_or("~".into()), get(oo, "column").map(e_num).unwrap_or("~".into())),
                    _ => "?".into(),
                };
                let m = match get(so, "map") {
                    None | Some(OV::Null) => "~".to_string(),
                    Some(x) => enc_view(x),
                };
                s.push_str(&format!("[k={};z={};off={};u={};m={}]", lst(sk, ","), lst(sn, ","), off, v_str(get(so, "url")), m));
            }
            if s.is_empty() { ".".into() } else { s }
        }
        Some(_) => "?".into(),
    };
    format!(
        "E{{k={};z={};v={};f={};s={};r={};c={};n={};g={};m={};i={};d={};D={};b={};o={};p={};S={}}}",
        lst(keys, ","),
        lst(nulls, ","),
        get(obj, "version").map(e_num).unwrap_or("~".into()),
        v_str(get(obj, "file")),
        v_list(get(obj, "sources"), &e_ostr, ","),
        v_str(get(obj, "sourceRoot")),
        v_list(get(obj, "sourcesContent"), &e_ostr, ","),
        v_list(get(obj, "names"), &e_ostr, ","),
        v_str(get(obj, "rangeMappings")),
        v_str(get(obj, "mappings")),
        v_list(get(obj, "ignoreList"), &e_num, ","),
        v_str(get(obj, "debug_id")),
        v_str(get(obj, "debugId")),
        v_list(get(obj, "x_facebook_sources"), &e_fb, ","),
        v_list(get(obj, "x_facebook_offsets"), &e_num, ","),
        v_list(get(obj, "x_metro_module_paths"), &e_ostr, ","),
        secs
    )
}

fn encode(d: &DecodedMap) -> Result<Vec<u8>, String> {
    let mut out = vec![];
    d.to_writer(&mut out).map_err(|e| format!("err enc-{}", err_kind(&e)))?;
    Ok(out)
}


// ---------------------------------------------------------------- `new` mode and doc.prod

fn hex_string(h: &str) -> Option<String> {
    String::from_utf8(parse_hex(if h.is_empty() { "-" } else { h })).ok()
}

fn str_list(v: &str) -> Option<Vec<Option<String>>> {
    if v == "[]" {
        return Some(vec![]);
    }
    let v = v.strip_prefix('[')?.strip_suffix(']')?;
    v.split(',').map(|x| if x == "null" { Some(None) } else { x.strip_prefix('s').and_then(hex_string).map(Some) }).collect()
}

/// `{ item* }` (flat, strings only) -> SourceMap through the raw constructor and the setters
fn build_new(t: &[&str]) -> Option<SourceMap> {
    if t.first() != Some(&"{") || t.last() != Some(&"}") {
        return None;
    }
    let mut file: Option<String> = None;
    let mut root: Option<String> = None;
    let mut did: Option<String> = None;
    let mut srcs: Vec<String> = vec![];
    let mut names: Vec<String> = vec![];
    let mut sc: Option<Vec<Option<String>>> = None;
    let mut ign: Vec<u32> = vec![];
    let mut toks = vec![];
    for it in &t[1..t.len() - 1] {
        let (k, v) = it.split_once('=')?;
        if v == "null" {
            continue;
        }
        match k {
            "ver" => {}
            "file" => file = Some(hex_string(v.strip_prefix('s')?)?),
            "root" => root = Some(hex_string(v.strip_prefix('s')?)?),
            "did" => did = Some(hex_string(v.strip_prefix('s')?)?),
            "srcs" => srcs = str_list(v)?.into_iter().map(|x| x.unwrap_or_default()).collect(),
            "names" => names = str_list(v)?.into_iter().map(|x| x.unwrap_or_default()).collect(),
            "sc" => sc = Some(str_list(v)?),
            "ign" => ign = if v == "[]" { vec![] } else { parse_u32s(v.strip_prefix('[')?.strip_suffix(']')?) },
            "toks" => toks = crate::ops::map::parse_toks(v),
            _ => return None,
        }
    }
    let mut sm = SourceMap::new(
        file.map(Into::into),
        toks,
        names.into_iter().map(Into::into).collect(),
        srcs.into_iter().map(Into::into).collect(),
        sc.map(|v| v.into_iter().map(|x| x.map(Into::into)).collect()),
    );
    sm.set_source_root(root);
    if let Some(d) = did {
        sm.set_debug_id(Some(d.parse().ok()?));
    }
    for i in ign {
        sm.add_to_ignore_list(i);
    }
    Some(sm)
}

fn sx(s: &str) -> String {
    format!("s{}", s.bytes().map(|b| format!("{:02x}", b)).collect::<String>())
}

/// a regular map as a `new`-mode description
fn describe(sm: &SourceMap) -> String {
    let mut plain = sm.clone();
    plain.set_source_root(None::<&str>);
    let n = sm.get_source_count();
    let mut items = vec!["{".to_string(), "ver=3".to_string()];
    if let Some(f) = sm.get_file() {
        items.push(format!("file={}", sx(f)));
    }
    let srcs: Vec<String> = (0..n).map(|i| sx(plain.get_source(i).unwrap_or(""))).collect();
    items.push(format!("srcs=[{}]", srcs.join(",")));
    let names: Vec<String> = sm.names().map(sx).collect();
    items.push(format!("names=[{}]", names.join(",")));
    if let Some(r) = sm.get_source_root() {
        items.push(format!("root={}", sx(r)));
    }
    // contents as far as the accessors show them (trailing entries without contents are not observable)
    let mut sc: Vec<Option<&str>> = (0..n + 4).map(|i| sm.get_source_contents(i)).collect();
    while sc.last() == Some(&None) {
        sc.pop();
    }
    if !sc.is_empty() {
        items.push(format!("sc=[{}]", sc.iter().map(|x| x.map(sx).unwrap_or("null".into())).collect::<Vec<_>>().join(",")));
    }
    let ign: Vec<String> = sm.ignore_list().map(|x| x.to_string()).collect();
    if !ign.is_empty() {
        items.push(format!("ign=[{}]", ign.join(",")));
    }
    if let Some(d) = sm.get_debug_id() {
        items.push(format!("did={}", sx(&d.to_string())));
    }
    let toks: Vec<String> = sm.tokens().map(|t| crate::ops::map::show_tok(&t.get_raw_token())).collect();
    let toks = { let mut t = toks; let m = crate::util::order_marker(&sm); if !m.is_empty() { t.push(m.to_string()); } t };
    if !toks.is_empty() {
        items.push(format!("toks={}", toks.join(";")));
    }
    items.push("}".into());
    items.join(" ")
}

/// hands out `first` bytes in the first read (when non-zero), then 1, 2, 3, 5, 7-byte reads for a while, then the rest
struct PiecewiseReader<'a> {
    data: &'a [u8],
    pos: usize,
    first: usize,
}

impl<'a> std::io::Read for PiecewiseReader<'a> {
    fn read(&mut self, buf: &mut [u8]) -> std::io::Result<usize> {
        let rest = self.data.len() - self.pos;
        let want = if self.pos == 0 && self.first > 0 {
            self.first
        } else if self.pos < self.first + 48 {
            [1usize, 2, 3, 5, 7][self.pos % 5]
        } else {
            rest
        };
        let n = want.min(rest).min(buf.len());
        buf[..n].copy_from_slice(&self.data[self.pos..self.pos + n]);
        self.pos += n;
        Ok(n)
    }
}

fn split_docs<'a>(t: &'a [&'a str]) -> Vec<&'a [&'a str]> {
    // top-level `{ … }` groups
    let mut out = vec![];
    let mut depth = 0usize;
    let mut start = 0usize;
    for (i, x) in t.iter().enumerate() {
        if *x == "{" {
            if depth == 0 {
                start = i;
            }
            depth += 1;
        } else if *x == "}" {
            depth = depth.saturating_sub(1);
            if depth == 0 {
                out.push(&t[start..=i]);
            }
        }
    }
    out
}

fn decode_desc(t: &[&str]) -> Option<DecodedMap> {
    let mut rd = Rd { t, i: 0 };
    let mut amaps = vec![];
    let json = rd.doc(0, 0, &mut amaps)?;
    decode_slice(json.as_bytes()).ok()
}

fn regular_of(d: DecodedMap) -> Option<SourceMap> {
    match d {
        DecodedMap::Regular(sm) => Some(sm),
        DecodedMap::Hermes(smh) => Some((*smh).clone()),
        DecodedMap::Index(_) => None,
    }
}

fn prod(t: &[&str]) -> String {
    let docs = split_docs(&t[2..]);
    let Some(first) = docs.first() else { return "bad-op-case".into() };
    let Some(d) = decode_desc(first) else { return "err decode".into() };
    let what = t[1];
    let out: Option<SourceMap> = match what {
        "flatten" => match d {
            DecodedMap::Index(smi) => smi.flatten().ok(),
            _ => None,
        },
        "rewrite" | "rewrite-nonames" | "rewrite-nocontents" | "rewrite-strip" => {
            let strip = ["~", "/abs", "lib"];
            let opts = sourcemap::RewriteOptions {
                with_names: what != "rewrite-nonames",
                with_source_contents: what != "rewrite-nocontents",
                strip_prefixes: if what == "rewrite-strip" { &strip[..] } else { &[][..] },
                ..Default::default()
            };
            regular_of(d).and_then(|sm| sm.rewrite(&opts).ok())
        }
        "adjust" => {
            let adj = docs.get(1).and_then(|x| decode_desc(x)).and_then(regular_of);
            match (regular_of(d), adj) {
                (Some(mut sm), Some(a)) => {
                    sm.adjust_mappings(&a);
                    Some(sm)
                }
                _ => None,
            }
        }
        "builder" => regular_of(d).map(|sm| {
            // re-add every token through the interning builder, in reverse order
            let mut b = sourcemap::SourceMapBuilder::new(sm.get_file());
            let toks: Vec<_> = sm.tokens().collect();
            for tk in toks.iter().rev() {
                b.add_token(tk, true);
            }
            b.set_source_root(sm.get_source_root());
            b.set_debug_id(sm.get_debug_id());
            b.into_sourcemap()
        }),
        _ => return "bad-op".into(),
    };
    match out {
        Some(sm) => format!("ok {}", describe(&sm)),
        None => "err none".into(),
    }
}

// ---------------------------------------------------------------- ops

pub fn run(t: &[&str]) -> String {
    if t.len() < 3 {
        return "bad-op".into();
    }
    if t[0] == "doc.prod" {
        return prod(t);
    }
    let mut opt = t[1].split(':');
    let hdr = parse_hex(opt.next().unwrap_or("-"));
    let ws: u8 = opt.next().and_then(|x| x.parse().ok()).unwrap_or(0);
    let mode = opt.next().unwrap_or("dec");
    let d1 = if mode == "new" {
        match build_new(&t[2..]) {
            Some(sm) => DecodedMap::Regular(sm),
            None => return "bad-op-case".into(),
        }
    } else {
        let mut rd = Rd { t: &t[2..], i: 0 };
        let mut amaps = vec![];
        let Some(json) = rd.doc(ws, 0, &mut amaps) else { return "bad-op-case".into() };
        if rd.i != t.len() - 2 {
            return "bad-op-case".into();
        }
        for (m, a) in &amaps {
            if !vlq_cross_check(m, a) {
                return "err gen-vlq-mismatch".into();
            }
        }
        let hdr_len = hdr.len();
        let mut bytes = hdr;
        bytes.extend_from_slice(json.as_bytes());
        // the same bytes through the reader API, delivered in awkward pieces (the junk header as a read of its own,
        // then a few short reads): both entry points must give the same map or fail together
        let via_reader = sourcemap::decode(PiecewiseReader { data: &bytes, pos: 0, first: hdr_len });
        match decode_slice(&bytes) {
            Ok(d) => {
                match via_reader {
                    Ok(dr) => {
                        if dump(&dr) != dump(&d) {
                            return "err reader-differs".into();
                        }
                    }
                    Err(e) => return format!("err reader-only-{}", err_kind(&e)),
                }
                d
            }
            Err(e) => {
                if via_reader.is_ok() {
                    return "err slice-only".into();
                }
                return format!("err {}", err_kind(&e));
            }
        }
    };
    match t[0] {
        "doc.dec" => format!("ok {}", dump(&d1)),
        "doc.rt" => {
            let b1 = match encode(&d1) { Ok(b) => b, Err(e) => return e };
            let d2 = match decode_slice(&b1) {
                Ok(d) => d,
                Err(e) => return format!("err re-{}", err_kind(&e)),
            };
            let b2 = match encode(&d2) { Ok(b) => b, Err(e) => return e };
            // the reader API must give the same map as the slice API on the library's own output
            let d2r = match sourcemap::decode(&b1[..]) {
                Ok(d) => obs(&d),
                Err(e) => format!("err-{}", err_kind(&e)),
            };
            let o2 = obs(&d2);
            // the Hermes payload as written (top level)
            let fb = match serde_json::from_slice::<OV>(&b1) {
                Ok(OV::Obj(obj)) => v_list(get(&obj, "x_facebook_sources"), &e_fb, ","),
                _ => "?".into(),
            };
            // C01 quantifies over every map, also one reached through the setters: after changing / clearing the
            // source root (which must keep the prefixed-name table in step) the map still round-trips
            if let DecodedMap::Regular(sm0) = &d1 {
                let steps: [(&str, Option<&str>); 4] = [("root=x/", Some("x/")), ("root=none", None), ("root=/abs", Some("/abs")), ("root=empty", Some(""))];
                let mut sm = sm0.clone();
                for (k, (what, root)) in steps.into_iter().enumerate() {
                    sm.set_source_root(root);
                    if sm.get_source_count() > 0 {
                        // a renamed source is written under its new raw name, with or without a root in force
                        let i = (k as u32) % sm.get_source_count();
                        sm.set_source(i, &format!("renamed{k}.js"));
                    }
                    let dm = DecodedMap::Regular(sm.clone());
                    let before = obs(&dm);
                    let after = match encode(&dm).ok().and_then(|b| decode_slice(&b).ok()) {
                        Some(d) => obs(&d),
                        None => "unreadable".into(),
                    };
                    if before != after {
                        return format!("err setter-roundtrip-differs {}", what);
                    }
                }
            }
            // a Hermes map that went through `rewrite` (sources renumbered in order of first use, unreferenced ones
            // dropped) is a Hermes map like any other: written and read back, every token still has the same scope
            if let DecodedMap::Hermes(smh) = &d1 {
                if let Ok(rw) = smh.clone().rewrite(&sourcemap::RewriteOptions::default()) {
                    // (the writer drops exact consecutive duplicates: compare the views with those removed)
                    let scopes = |h: &sourcemap::SourceMapHermes| -> Vec<String> {
                        let mut v: Vec<String> = vec![];
                        for t in h.tokens() {
                            let r = t.get_raw_token();
                            // hidden fields of a source-less token are not part of the view (wire normal form)
                            let e = if t.has_source() {
                                format!("{}:{}:{}:{}:{:?}:{:?}:{:?}", r.dst_line, r.dst_col, r.src_line, r.src_col, t.get_source(), t.get_name(), h.get_scope_for_token(t))
                            } else {
                                format!("{}:{}:~:{:?}", r.dst_line, r.dst_col, h.get_scope_for_token(t))
                            };
                            if v.last() != Some(&e) {
                                v.push(e);
                            }
                        }
                        v
                    };
                    let before = scopes(&rw);
                    let mut buf = vec![];
                    let after = match rw.to_writer(&mut buf).ok().and_then(|_| sourcemap::SourceMapHermes::from_slice(&buf).ok()) {
                        Some(h2) => scopes(&h2),
                        None => return "err rewritten-hermes-unreadable".into(),
                    };
                    if before != after {
                        return "err rewritten-hermes-roundtrip-differs".into();
                    }
                }
            }
            // an index taken apart and put together again through its mutators (sections detached and re-attached, url
            // and file re-set) is the same index: same view, same bytes (C01 / C03 on maps reached through the API)
            if let DecodedMap::Index(ix0) = &d1 {
                let mut ix = ix0.clone();
                let file = ix.get_file().map(str::to_owned);
                ix.set_file(file.as_deref());
                for i in 0..ix.get_section_count() {
                    if let Some(sec) = ix.get_section_mut(i) {
                        let url = sec.get_url().map(str::to_owned);
                        let inner = sec.get_sourcemap_mut().map(|m| m.clone());
                        sec.set_sourcemap(None);
                        sec.set_url(None);
                        sec.set_url(url.as_deref());
                        sec.set_sourcemap(inner);
                    }
                }
                let dm = DecodedMap::Index(ix);
                if obs(&dm) != obs(&d1) || encode(&dm).ok() != Some(b1.clone()) {
                    return "err mutator-rebuilt-index-differs".into();
                }
            }
            format!("ok {} {} stable={} reader={} fb={}", obs(&d1), o2, (b1 == b2) as u8, (d2r == o2) as u8, fb)
        }
        "doc.enc" => {
            let b1 = match encode(&d1) { Ok(b) => b, Err(e) => return e };
            // 'sources' carries the map's raw names and 'sourceRoot' its root also after both were changed through the
            // setters (the map keeps a raw and a prefixed table; the encoder writes the raw one plus the root)
            if let DecodedMap::Regular(sm0) = &d1 {
                if sm0.get_source_count() > 0 {
                    let mut sm = sm0.clone();
                    sm.set_source_root(Some("x/y"));
                    let last = sm.get_source_count() - 1;
                    sm.set_source(last, "renamed.js");
                    let written = encode(&DecodedMap::Regular(sm)).ok().and_then(|b| serde_json::from_slice::<serde_json::Value>(&b).ok());
                    let ok = match &written {
                        Some(v) => {
                            v.get("sourceRoot").and_then(|x| x.as_str()) == Some("x/y")
                                && v.get("sources").and_then(|x| x.as_array()).and_then(|a| a.get(last as usize)).and_then(|x| x.as_str()) == Some("renamed.js")
                        }
                        None => false,
                    };
                    if !ok {
                        return "err setter-then-encode-differs".into();
                    }
                }
                // what is written always describes the tokens the map holds *now*: written once, then changed by
                // `adjust_mappings` (every line moved down by one), then written again and read back
                let mut sm = sm0.clone();
                let _ = encode(&DecodedMap::Regular(sm.clone()));
                let first = sourcemap::DecodedMap::Regular(sm.clone());
                let _ = encode(&first);
                let shift = sourcemap::SourceMap::new(None, vec![sourcemap::RawToken { dst_line: 1, dst_col: 0, src_line: 0, src_col: 0, src_id: 0, name_id: !0, is_range: false }], vec![], vec!["s".into()], None);
                let mut out = vec![];
                // (inside the domain where `adjust_mappings` is defined: its i32 displacement arithmetic panics on
                // coordinates of 2^31 and more - C10 - which is not this check's subject)
                if sm.to_writer(&mut out).is_ok() && sm.tokens().all(|t| t.get_dst_line() < (1 << 30) && t.get_dst_col() < (1 << 30)) {
                    sm.adjust_mappings(&shift);
                    let dm = DecodedMap::Regular(sm);
                    let before = obs(&dm);
                    let after = match encode(&dm).ok().and_then(|b| decode_slice(&b).ok()) {
                        Some(d) => obs(&d),
                        None => "unreadable".into(),
                    };
                    if before != after {
                        return "err adjusted-then-encode-differs".into();
                    }
                }
            }
            match serde_json::from_slice::<OV>(&b1) {
                Ok(v) => format!("ok {}", enc_view(&v)),
                Err(_) => "ok ?notjson".into(),
            }
        }
        _ => "bad-op".into(),
    }
}
