use crate::util::*;
use sourcemap::vlq::{generate_vlq_segment, parse_vlq_segment};

fn fnv(h: u64, b: u8) -> u64 {
    (h ^ b as u64).wrapping_mul(1099511628211)
}

pub fn run(t: &[&str]) -> String {
    match t[0] {
        "vlq.enc" => {
            let xs = parse_ints(t[1]);
            // |n| >= 2^62 makes encode_vlq loop forever (i64::MIN panics): outside every property;
            // reported without calling so that the harness itself cannot hang.
            if xs.iter().any(|&n| n == i64::MIN) {
                return "err panic".into();
            }
            if xs.iter().any(|&n| n.unsigned_abs() >= 1u64 << 62) {
                // the model reports the first failing element; i64::MIN handled above only when first
                return "err diverge".into();
            }
            match generate_vlq_segment(&xs) {
                Ok(s) => format!("ok {}", to_hex(s.as_bytes())),
                Err(e) => format!("err {}", err_kind(&e)),
            }
        }
        "vlq.dec" => match hex_str(t[1]) {
            None => "skip".into(),
            Some(s) => match parse_vlq_segment(&s) {
                Ok(v) => format!("ok {}", show_list(&v)),
                Err(e) => format!("err {}", err_kind(&e)),
            },
        },
        "vlq.range" => {
            let lo: i64 = t[1].parse().unwrap();
            let hi: i64 = t[2].parse().unwrap();
            let mut h: u64 = 14695981039346656037;
            let mut bad = 0u64;
            let mut n = lo;
            while n < hi {
                match generate_vlq_segment(&[n]) {
                    Ok(s) => {
                        for b in s.bytes() {
                            h = fnv(h, b);
                        }
                        match parse_vlq_segment(&s) {
                            Ok(v) if v.len() == 1 && v[0] == n => {}
                            _ => bad += 1,
                        }
                    }
                    Err(_) => bad += 1,
                }
                n += 1;
                if n & 0xfffff == 0 {
                    crate::STARTED_MS.store(crate::now_ms_pub(), std::sync::atomic::Ordering::SeqCst);
                }
            }
            format!("ok {} {}", h, bad)
        }
        _ => "bad-op".into(),
    }
}
