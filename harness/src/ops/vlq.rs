use crate::util::*;
use sourcemap::vlq::{generate_vlq_segment, parse_vlq_segment};

fn fnv(h: u64, b: u8) -> u64 {
    (h ^ b as u64).wrapping_mul(1099511628211)
}

pub fn run(t: &[&str]) -> String {
    match t[0] {
        "vlq.enc" => {
            let xs = parse_ints(t[1]);
            // |n| >= 2^62 makes encode_vlq loop forever (i64::MIN panics): outside every property;
            // reported without calling so that the harness itself cannot hang.
            if xs.iter().any(|&n| n == i64::MIN) {
                return "err panic".into();
            }
            if xs.iter().any(|&n| n.unsigned_abs() >= 1u64 << 62) {
                // the model reports the first failing element; i64::MIN handled above only when first
                return "err diverge".into();
            }
            // every difference of two u32 values is what the map encoder emits (C11, last clause): the text it writes
            // for that difference between two consecutive tokens is the canonical text of the difference
            for &x in &xs {
                if x.unsigned_abs() <= u32::MAX as u64 {
                    let (a, b) = if x >= 0 { (x as u32, 0u32) } else { (0u32, (-x) as u32) };
                    let tok = |col: u32, line: u32| sourcemap::RawToken { dst_line: 0, dst_col: col, src_line: line, src_col: 0, src_id: 0, name_id: !0, is_range: false };
                    let sm = sourcemap::SourceMap::new(None, vec![tok(0, b), tok(1, a)], vec![], vec!["s".into()], None);
                    let written = match crate::ops::map::enc_fields(&sm) {
                        Ok((m, _)) => m,
                        Err(e) => return e,
                    };
                    let second = written.split(',').nth(1).unwrap_or("").to_string();
                    match generate_vlq_segment(&[1, 0, x, 0]) {
                        Ok(want) if want == second => {}
                        _ => return format!("err encoder-diff-differs {}", x),
                    }
                }
            }
            match generate_vlq_segment(&xs) {
                Ok(s) => format!("ok {}", to_hex(s.as_bytes())),
                Err(e) => format!("err {}", err_kind(&e)),
            }
        }
        "vlq.dec" => match hex_str(t[1]) {
            None => "skip".into(),
            Some(s) => match parse_vlq_segment(&s) {
                Ok(v) => format!("ok {}", show_list(&v)),
                Err(e) => format!("err {}", err_kind(&e)),
            },
        },
        "vlq.range" => {
            let lo: i64 = t[1].parse().unwrap();
            let hi: i64 = t[2].parse().unwrap();
            let mut h: u64 = 14695981039346656037;
            let mut bad = 0u64;
            let mut n = lo;
            while n < hi {
                match generate_vlq_segment(&[n]) {
                    Ok(s) => {
                        for b in s.bytes() {
                            h = fnv(h, b);
                        }
                        match parse_vlq_segment(&s) {
                            Ok(v) if v.len() == 1 && v[0] == n => {}
                            _ => bad += 1,
                        }
                    }
                    Err(_) => bad += 1,
                }
                n += 1;
                if n & 0xfffff == 0 {
                    crate::STARTED_MS.store(crate::now_ms_pub(), std::sync::atomic::Ordering::SeqCst);
                }
            }
            format!("ok {} {}", h, bad)
        }
        _ => "bad-op".into(),
    }
}
