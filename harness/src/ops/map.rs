//! map.dec / map.enc / map.rt / map.lookup: the mappings wire format and token lookup through the
//! public API (SourceMap::from_slice, SourceMap::new, to_writer, lookup_token).
use crate::util::*;
use sourcemap::{DecodedMap, RawToken, SourceMap};
use std::sync::Arc;

pub fn parse_toks(s: &str) -> Vec<RawToken> {
    if s == "-" || s.is_empty() {
        return vec![];
    }
    s.split(';')
        .map(|t| {
            let mut f: Vec<u32> = t.split(':').map(|x| x.parse::<u32>().unwrap_or(0)).collect();
            f.resize(7, 0);
            RawToken { dst_line: f[0], dst_col: f[1], src_line: f[2], src_col: f[3], src_id: f[4], name_id: f[5], is_range: f[6] != 0 }
        })
        .collect()
}
pub fn show_tok(t: &RawToken) -> String {
    format!("{}:{}:{}:{}:{}:{}:{}", t.dst_line, t.dst_col, t.src_line, t.src_col, t.src_id, t.name_id, t.is_range as u8)
}
pub fn show_toks(sm: &SourceMap) -> String {
    let v: Vec<String> = sm.tokens().map(|t| show_tok(&t.get_raw_token())).collect();
    let m = order_marker(sm);
    if !m.is_empty() {
        return m.to_string();
    }
    if v.is_empty() { "-".into() } else { v.join(";") }
}
/// tokens in canonical order: by generated position (their iteration order) with ties - whose
/// relative order `sort_unstable` does not define - ordered by the remaining fields
pub fn show_toks_canon(sm: &SourceMap) -> String {
    let mut raws: Vec<RawToken> = sm.tokens().map(|t| t.get_raw_token()).collect();
    let m = order_marker(sm);
    if !m.is_empty() {
        return m.to_string();
    }
    let sorted_by_pos = raws.windows(2).all(|w| (w[0].dst_line, w[0].dst_col) <= (w[1].dst_line, w[1].dst_col));
    if !sorted_by_pos {
        return "unsorted ".to_string() + &show_toks(sm);
    }
    raws.sort_by_key(|t| (t.dst_line, t.dst_col, t.src_line, t.src_col, t.src_id, t.name_id, t.is_range));
    let v: Vec<String> = raws.iter().map(show_tok).collect();
    if v.is_empty() { "-".into() } else { v.join(";") }
}
pub fn names(n: usize, p: &str) -> Vec<Arc<str>> {
    (0..n).map(|i| format!("{p}{i}").into()).collect()
}
pub fn mk_json(nsrc: usize, nnames: usize, mappings: &str, rmi: Option<&str>) -> String {
    let srcs: Vec<String> = (0..nsrc).map(|i| format!("s{i}")).collect();
    let nms: Vec<String> = (0..nnames).map(|i| format!("n{i}")).collect();
    let mut v = serde_json::json!({"version": 3, "sources": srcs, "names": nms, "mappings": mappings});
    if let Some(r) = rmi {
        v["rangeMappings"] = serde_json::Value::String(r.to_string());
    }
    v.to_string()
}
pub fn mk_json_odd(nsrc: usize, nnames: usize, mappings: &str, rmi: Option<&str>) -> String {
    use serde_json::{json, Value};
    let srcs: Vec<Value> = (0..nsrc).map(|i| if i % 3 == 1 { Value::Null } else { json!(format!("s{i}")) }).collect();
    let nms: Vec<Value> = (0..nnames)
        .map(|i| match i % 5 {
            0 => json!(format!("n{i}")),
            1 => Value::Null,
            2 => json!(i),
            3 => json!(true),
            _ => json!({"k": [1]}),
        })
        .collect();
    let mut v = json!({"version": 3, "sources": srcs, "names": nms, "mappings": mappings});
    if let Some(r) = rmi {
        v["rangeMappings"] = Value::String(r.to_string());
    }
    v.to_string()
}
/// a token of a successfully decoded map whose source or name index does not resolve
pub fn dangling(sm: &SourceMap) -> Option<String> {
    for t in sm.tokens() {
        let r = t.get_raw_token();
        if r.src_id != !0 && sm.get_source(r.src_id).is_none() {
            return Some(format!("err dangling-source-index {}", r.src_id));
        }
        if r.name_id != !0 && sm.get_name(r.name_id).is_none() {
            return Some(format!("err dangling-name-index {}", r.name_id));
        }
    }
    None
}
/// serialise and pull `mappings` / `rangeMappings` out of the JSON text
pub fn enc_fields(sm: &SourceMap) -> Result<(String, Option<String>), String> {
    let mut out = vec![];
    sm.to_writer(&mut out).map_err(|e| format!("err {}", err_kind(&e)))?;
    let v: serde_json::Value = serde_json::from_slice(&out).map_err(|_| "err badjson-out".to_string())?;
    let m = v.get("mappings").and_then(|x| x.as_str()).unwrap_or("").to_string();
    let r = v.get("rangeMappings").and_then(|x| x.as_str()).map(|x| x.to_string());
    Ok((m, r))
}
pub fn max_line(toks: &[RawToken]) -> u32 {
    toks.iter().map(|t| t.dst_line).max().unwrap_or(0)
}

/// the map's tokens as a Hermes map and the same behind `DecodedMap` (None when the map cannot be written and read back,
/// e.g. dangling ids or a huge line number)
fn as_hermes(sm: &SourceMap) -> Option<(sourcemap::SourceMapHermes, DecodedMap)> {
    if sm.tokens().map(|t| t.get_dst_line()).max().unwrap_or(0) >= 20_000 {
        return None;
    }
    let mut buf = vec![];
    sm.to_writer(&mut buf).ok()?;
    let mut doc: serde_json::Value = serde_json::from_slice(&buf).ok()?;
    doc["x_facebook_sources"] = serde_json::json!([]);
    match sourcemap::decode_slice(doc.to_string().as_bytes()).ok()? {
        DecodedMap::Hermes(h) => Some((h.clone(), DecodedMap::Hermes(h))),
        _ => None,
    }
}

pub fn run(t: &[&str]) -> String {
    match t[0] {
        "map.dec" => {
            let nsrc: usize = t[1].parse().unwrap();
            let nn: usize = t[2].parse().unwrap();
            let (Some(m), Some(r)) = (hex_str(t[3]), hex_str(t[4])) else { return "skip".into() };
            let rmi = if t[4] == "none" { None } else { Some(r.as_str()) };
            let js = mk_json(nsrc, nn, &m, rmi);
            let first = match SourceMap::from_slice(js.as_bytes()) {
                Ok(sm) => {
                    if let Some(bad) = dangling(&sm) {
                        return bad;
                    }
                    format!("ok {}", show_toks_canon(&sm))
                }
                Err(e) => format!("err {}", err_kind(&e)),
            };
            // the same mappings under tables of the same lengths whose entries are not all strings (null sources;
            // null / boolean / numeric / object names, which real maps contain): the outcome and the tokens depend on
            // the table lengths only, and every accepted index still resolves (C06, last sentence)
            let second = match SourceMap::from_slice(mk_json_odd(nsrc, nn, &m, rmi).as_bytes()) {
                Ok(sm) => {
                    if let Some(bad) = dangling(&sm) {
                        return bad;
                    }
                    format!("ok {}", show_toks_canon(&sm))
                }
                Err(e) => format!("err {}", err_kind(&e)),
            };
            if first != second {
                return "err odd-tables-differ".into();
            }
            first
        }
        "map.enc" | "map.rt" => {
            let nsrc: usize = t[1].parse().unwrap();
            let nn: usize = t[2].parse().unwrap();
            let toks = parse_toks(t[3]);
            if max_line(&toks) > 200_000 {
                return "skip".into();
            }
            let sm = SourceMap::new(None, toks, names(nn, "n"), names(nsrc, "s"), None);
            let (m, r) = match enc_fields(&sm) { Ok(x) => x, Err(e) => return e };
            if t[0] == "map.enc" {
                return format!("ok {} {}", to_hex(m.as_bytes()), r.map(|x| to_hex(x.as_bytes())).unwrap_or("none".into()));
            }
            let js = mk_json(nsrc, nn, &m, r.as_deref());
            match SourceMap::from_slice(js.as_bytes()) {
                Ok(sm2) => format!("ok {}", show_toks(&sm2)),
                Err(e) => format!("err {}", err_kind(&e)),
            }
        }
        "map.lookup" => {
            let toks = parse_toks(t[1]);
            let sm = SourceMap::new(None, toks, vec![], vec![], None);
            let dm = DecodedMap::Regular(sm.clone());
            // the same tokens as a Hermes map (written, given an empty `x_facebook_sources`, read back): `DecodedMap`'s
            // lookup is the embedded map's lookup there too, on every line
            let hm = as_hermes(&sm);
            let mut out = vec![];
            for q in split_list(t[2]) {
                let (l, c) = q.split_once(':').unwrap_or((q, "0"));
                let (l, c): (u32, u32) = (l.parse().unwrap_or(0), c.parse().unwrap_or(0));
                if let Some((h, hd)) = &hm {
                    if hd.lookup_token(l, c).map(|t| (t.get_raw_token(), t.get_src_col())) != h.lookup_token(l, c).map(|t| (t.get_raw_token(), t.get_src_col())) {
                        return "err hermes-dispatch-differs".into();
                    }
                }
                // `DecodedMap::lookup_token` is the same lookup
                if dm.lookup_token(l, c).map(|t| (t.get_raw_token(), t.get_src_col())) != sm.lookup_token(l, c).map(|t| (t.get_raw_token(), t.get_src_col())) {
                    return "err dispatch-differs".into();
                }
                match sm.lookup_token(l, c) {
                    None => out.push("-".to_string()),
                    Some(tok) => {
                        if !token_accessors_agree(&tok) {
                            return "err accessors-differ".into();
                        }
                        // Token::idx observed through the public API: after `seek` the iterator
                        // continues behind the found token
                        let raw = tok.get_raw_token();
                        let mut it = sm.tokens();
                        it.seek(l, c);
                        let idx = sm.get_token_count() as usize - it.count() - 1;
                        out.push(format!("{}/{}/{}", idx, show_tok(&raw), tok.get_src_col()))
                    }
                }
            }
            let m = order_marker(&sm);
            if !m.is_empty() {
                return format!("ok {}", m);
            }
            format!("ok {}", out.join(","))
        }
        _ => "bad-op".into(),
    }
}
