//! bytes.all (C05): drives every decoding and detection entry point on one byte string and, when a
//! map comes back, every read-only query, serialisation, rewriting with all in-memory option
//! combinations and flattening.  The result only says how the calls ended; the watchdog (hang), the
//! panic hook (panic / overflow) and the counting allocator (allocation out of proportion) turn a
//! misbehaviour into `err panic`, `hang` or `err alloc`.
use crate::util::*;
use sourcemap::*;
use std::fmt::Write as _;

fn positions(sm: &SourceMap) -> Vec<(u32, u32)> {
    let mut v = vec![(0, 0), (0, 1), (1, 0), (u32::MAX, u32::MAX), (0, u32::MAX), (u32::MAX, 0)];
    for t in sm.tokens().take(40) {
        let (l, c) = t.get_dst();
        v.push((l, c));
        v.push((l, c.saturating_add(1)));
        v.push((l, c.saturating_add(7)));
        v.push((l.saturating_add(1), c.saturating_sub(1)));
        v.push((l.saturating_add(1), 0));
    }
    v
}

fn exercise_regular(sm: &SourceMap, text: &str, out: &mut String) {
    let mut n = 0u64;
    for t in sm.tokens() {
        n += t.get_dst_line() as u64 + t.get_src_col() as u64;
        let _ = (t.get_source(), t.get_name(), t.has_source(), t.has_name(), t.to_tuple(), t.get_raw_token(), t.get_source_view().is_some());
        let _ = format!("{} {:#} {:?}", t, t, t);
    }
    let _ = n;
    let sv = SourceView::new(text.into());
    let sv2 = SourceView::new("function é(){}function 𝒳(a){return a}\nvar x=function(){};".into());
    for (l, c) in positions(sm) {
        if let Some(t) = sm.lookup_token(l, c) {
            let _ = (t.get_src(), t.get_source(), t.get_name(), format!("{t:#}"));
        }
        for name in ["a", "é", "function", "x", "", "1", "𝒳", "a b"] {
            let _ = sm.get_original_function_name(l, c, name, &sv);
            let _ = sm.get_original_function_name(l, c, name, &sv2);
        }
    }
    for i in [0u32, 1, 2, 1000, u32::MAX] {
        let _ = (sm.get_token(i as usize).is_some(), sm.get_source(i), sm.get_name(i), sm.get_source_contents(i), sm.get_source_view(i).is_some());
    }
    let _ = (sm.get_token_count(), sm.get_source_count(), sm.get_name_count(), sm.has_names(), sm.get_file(), sm.get_source_root(), sm.get_debug_id());
    let _ = (sm.sources().count(), sm.names().count(), sm.source_contents().count(), sm.ignore_list().count());
    let mut it = sm.tokens();
    let _ = it.seek(0, 5);
    let _ = it.next().is_some();
    let max_line = sm.tokens().map(|t| t.get_dst_line()).max().unwrap_or(0);
    if max_line < 100_000 {
        let mut buf = vec![];
        match sm.to_writer(&mut buf) {
            Ok(()) => {
                let again = decode_slice(&buf).is_ok();
                let _ = write!(out, " ser={}", if again { "ok" } else { "REDECODE-FAILED" });
            }
            Err(_) => out.push_str(" ser=SER-FAILED"),
        }
        let _ = sm.to_data_url().map(|u| decode_data_url(&u).is_ok());
        // the same map with its name table removed through the public setter: tokens keep their (now dangling) name ids
        // in memory, every name accessor must answer "none" and what is written must still decode (no name, no fifth field)
        let mut bare = sm.clone();
        bare.remove_names();
        let named = bare.tokens().any(|t| t.has_name() || t.get_name().is_some() || t.to_tuple().3.is_some());
        let mut buf = vec![];
        let again = bare.to_writer(&mut buf).is_ok() && decode_slice(&buf).is_ok();
        if named || !again {
            let _ = write!(out, " nonames={}", if named { "NAME-AFTER-REMOVE-FAILED" } else { "REDECODE-FAILED" });
        }
    } else {
        out.push_str(" ser=skipped");
    }
    for (names, contents) in [(true, true), (true, false), (false, true), (false, false)] {
        for prefixes in [&[][..], &["/a", "b/"][..], &["~"][..]] {
            let opts = RewriteOptions { with_names: names, with_source_contents: contents, strip_prefixes: prefixes, ..Default::default() };
            if let Ok(r) = sm.clone().rewrite(&opts) {
                let _ = r.tokens().count();
            }
        }
    }
    // adjust_mappings is deliberately not driven here: it is not among the operations C05 lists, and
    // its i32 displacement arithmetic overflows for coordinates >= 2^31 (noted in DESIGN.md, outside
    // every property's quantifier).
}

fn exercise(dm: &DecodedMap, text: &str, out: &mut String) {
    for (l, c) in [(0u32, 0u32), (0, 7), (1, 1), (u32::MAX, u32::MAX), (0, u32::MAX)] {
        let _ = dm.lookup_token(l, c).map(|t| (t.get_src(), t.get_source().map(|s| s.len())));
        let sv = SourceView::new(text.into());
        let _ = dm.get_original_function_name(l, c, Some("a"), Some(&sv));
    }
    match dm {
        DecodedMap::Regular(sm) => {
            out.push_str(" regular");
            exercise_regular(sm, text, out);
        }
        DecodedMap::Hermes(h) => {
            out.push_str(" hermes");
            exercise_regular(h, text, out);
            for t in h.tokens().take(60) {
                let _ = h.get_scope_for_token(t);
            }
            for off in [0u32, 1, 100, u32::MAX] {
                let _ = h.get_original_function_name(off);
            }
            for (names, contents) in [(true, true), (false, false)] {
                let opts = RewriteOptions { with_names: names, with_source_contents: contents, ..Default::default() };
                if let Ok(r) = h.clone().rewrite(&opts) {
                    for t in r.tokens().take(60) {
                        let _ = r.get_scope_for_token(t);
                    }
                }
            }
            let mut buf = vec![];
            let wrote = h.to_writer(&mut buf).is_ok();
            let again = wrote && matches!(decode_slice(&buf), Ok(DecodedMap::Hermes(_)));
            let _ = write!(out, " hser={}", if again { "ok" } else { "HSER-FAILED" });
        }
        DecodedMap::Index(ix) => {
            out.push_str(" index");
            let _ = (ix.get_file(), ix.get_section_count(), ix.is_for_ram_bundle(), ix.x_facebook_offsets().map(|x| x.len()), ix.x_metro_module_paths().map(|x| x.len()));
            for s in ix.sections() {
                let _ = (s.get_offset(), s.get_url(), s.get_sourcemap().is_some());
            }
            let mut qs = vec![(0u32, 0u32), (u32::MAX, u32::MAX), (0, u32::MAX)];
            for s in ix.sections().take(10) {
                let (l, c) = s.get_offset();
                qs.extend([(l, c), (l, c.saturating_add(1)), (l, c.saturating_sub(1)), (l.saturating_add(1), 0), (l.saturating_sub(1), c)]);
            }
            for (l, c) in qs {
                let _ = ix.lookup_token(l, c).map(|t| t.get_src());
            }
            match ix.flatten() {
                Ok(f) => {
                    out.push_str(" flat=ok");
                    exercise_regular(&f, text, out);
                }
                Err(_) => out.push_str(" flat=err"),
            }
            let _ = ix.clone().flatten_and_rewrite(&RewriteOptions::default()).map(|m| m.get_token_count());
            let mut buf = vec![];
            let wrote = ix.to_writer(&mut buf).is_ok();
            let again = wrote && matches!(decode_slice(&buf), Ok(DecodedMap::Index(_)));
            let _ = write!(out, " iser={}", if again { "ok" } else { "ISER-FAILED" });
        }
    }
}

pub fn run(t: &[&str]) -> String {
    let bytes = parse_hex(t[1]);
    let text = String::from_utf8_lossy(&bytes).to_string();
    let base = crate::alloc::live();
    crate::alloc::reset_peak();
    let mut out = String::from("ok");
    // detection
    let a = is_sourcemap_slice(&bytes);
    let b = is_sourcemap(&bytes[..]);
    let _ = write!(out, " sm={}{}", a as u8, if a == b { "" } else { " SM-MISMATCH" });
    let r1 = locate_sourcemap_reference_slice(&bytes);
    let r2 = locate_sourcemap_reference(&bytes[..]);
    let same_ref = match (&r1, &r2) { (Ok(x), Ok(y)) => x == y, (Err(_), Err(_)) => true, _ => false };
    if !same_ref {
        out.push_str(" REF-MISMATCH");
    }
    if let Ok(Some(r)) = &r1 {
        let _ = (r.get_url().len(), r.resolve("http://example.com/a/b.js"), r.get_embedded_sourcemap().is_ok());
    }
    if let Ok(u) = std::str::from_utf8(&bytes) {
        let _ = decode_data_url(u).is_ok();
        let _ = sourcemap::vlq::parse_vlq_segment(u).is_ok();
        let sv = SourceView::new(u.into());
        let _ = (sv.line_count(), sv.get_line(0), sv.get_line_slice(0, 1, u32::MAX), sv.get_line_slice(0, u32::MAX, u32::MAX), sv.lines().count(), sv.sourcemap_reference().is_ok());
    }
    #[allow(unused)]
    {
        let _ = sourcemap::ram_bundle::is_ram_bundle_slice(&bytes);
        if let Ok(rb) = sourcemap::ram_bundle::RamBundle::parse_indexed_from_slice(&bytes) {
            let _ = (rb.module_count(), rb.startup_code().is_ok(), rb.get_module(0).is_ok(), rb.get_module(usize::MAX).is_ok(), rb.iter_modules().take(64).count());
        }
    }
    // decoding: slice and reader must agree on success
    let d1 = decode_slice(&bytes);
    let d2 = decode(&bytes[..]);
    if d1.is_ok() != d2.is_ok() {
        out.push_str(" DECODE-MISMATCH");
    }
    let _ = (SourceMap::from_slice(&bytes).is_ok(), SourceMapIndex::from_slice(&bytes).is_ok(), SourceMapHermes::from_slice(&bytes).is_ok());
    match &d1 {
        Ok(dm) => exercise(dm, &text, &mut out),
        Err(e) => {
            let _ = write!(out, " dec={}", err_kind(e));
        }
    }
    drop(d1);
    drop(d2);
    let peak = crate::alloc::peak_since_reset(base);
    // allocation in proportion to the input: generous linear bound (flatten/rewrite copy the map a few times)
    let limit = 4096 * bytes.len() + (8 << 20);
    if peak > limit {
        return format!("err alloc peak={} input={}", peak, bytes.len());
    }
    out
}
