//! hdr.* (C12): reader, slice and data-URL decoding agree, however the stream is chunked.
//!
//! `StripHeaderReader` is private, so it is observed through `decode(reader)` / `is_sourcemap(reader)`
//! with a reader that hands the bytes out in exactly the requested read sizes.  What the JSON parser
//! was given is recovered *observationally*: the outcome (decoded map re-serialised in full, or the
//! serde_json error with its category, message, line and column, or the error kind) must be the
//! outcome of decoding ` ` + stream for the stream the rule predicts (a leading space is not a junk
//! byte, so that call takes the trivial path of `strip_junk_header` / `StripHeaderReader`; it shifts
//! columns on line 1 by one, which is compensated).  The reader path is compared in full with
//! `decode(&[u8] reader over ` ` + stream)` (one read) and, error positions aside, with
//! `decode_slice(` ` + stream)`; the slice path with `decode_slice(` ` + stream)`.  The predicted cut (`rk`/`sk` = number of bytes removed on the reader /
//! slice path, `io` for a bare `\r`) comes from a ten-line reference reading of the rule below and is
//! printed, so that the Lean model is compared with it on every case; `r=`/`s=`/`ir=`/`is=` say
//! whether the implementation's outcome is the predicted one; `agree`/`iagree` compare the two
//! implementation paths with each other directly (the property's own oracle).
use crate::util::*;
use sourcemap::{decode, decode_data_url, decode_slice, is_sourcemap, is_sourcemap_slice, DecodedMap, Error};
use std::io::{self, Read};

/// `BufReader`'s default capacity: the `buf.len()` every `StripHeaderReader::read` call is made with
const BUF: usize = 8192;

/// hands out `data` in reads of exactly the given sizes (cycling); a size larger than the caller's
/// buffer is capped; `Ok(0)` only at the end
struct ChunkReader<'a> {
    data: &'a [u8],
    pos: usize,
    sizes: &'a [usize],
    i: usize,
    calls: usize,
    max_buf: usize,
}

impl<'a> ChunkReader<'a> {
    fn new(data: &'a [u8], sizes: &'a [usize]) -> Self {
        ChunkReader { data, pos: 0, sizes, i: 0, calls: 0, max_buf: 0 }
    }
}

impl<'a> Read for ChunkReader<'a> {
    fn read(&mut self, buf: &mut [u8]) -> io::Result<usize> {
        self.calls += 1;
        self.max_buf = self.max_buf.max(buf.len());
        let want = if self.sizes.is_empty() { usize::MAX } else { self.sizes[self.i % self.sizes.len()].max(1) };
        self.i += 1;
        let n = want.min(buf.len()).min(self.data.len() - self.pos);
        buf[..n].copy_from_slice(&self.data[self.pos..self.pos + n]);
        self.pos += n;
        Ok(n)
    }
}

/// canonical outcome of a decode call; `adj`: the input had one extra leading space
fn outcome(r: Result<DecodedMap, Error>, adj: bool) -> String {
    match r {
        Ok(m) => {
            let tag = match m {
                DecodedMap::Regular(_) => "R",
                DecodedMap::Index(_) => "I",
                DecodedMap::Hermes(_) => "H",
            };
            let mut buf = vec![];
            match m.to_writer(&mut buf) {
                Ok(()) => format!("ok {} {}", tag, String::from_utf8_lossy(&buf)),
                Err(e) => format!("ok {} unserialisable {}", tag, err_kind(&e)),
            }
        }
        Err(Error::BadJson(e)) => {
            if e.is_io() {
                format!("io {:?}", e.io_error_kind())
            } else {
                let (l, c) = (e.line(), e.column());
                let full = e.to_string();
                let suffix = format!(" at line {} column {}", l, c);
                let msg = full.strip_suffix(&suffix).unwrap_or(&full).to_string();
                let c = if adj && l == 1 { c.saturating_sub(1) } else { c };
                format!("json {:?} {} @{}:{}", e.classify(), msg, l, c)
            }
        }
        Err(Error::Io(e)) => format!("err io {:?}", e.kind()),
        Err(e) => format!("err {} {}", err_kind(&e), e),
    }
}

/// the outcome without the position of a JSON error.  serde_json's reader- and slice-based parsers
/// report some errors one column apart (after a number the reader has already consumed the look-ahead
/// byte), so positions are compared only between runs of the same kind of parser.
fn nopos(o: &str) -> &str {
    if o.starts_with("json ") {
        match o.rfind(" @") {
            Some(i) => &o[..i],
            None => o,
        }
    } else {
        o
    }
}

fn is_ok(o: &str) -> bool {
    o.starts_with("ok ")
}

/// Reference reading of the rule (independent of the crate): `None` = a bare `\r` ends the first
/// line; otherwise the number of bytes removed on the reader path and on the slice path.
fn ref_strip(b: &[u8]) -> Option<(usize, usize)> {
    if b.is_empty() || !b")]}'".contains(&b[0]) {
        return Some((0, 0));
    }
    match b.iter().position(|&c| c == b'\n' || c == b'\r') {
        None => Some((b.len(), b.len())),
        Some(i) if b[i] == b'\n' => Some((i + 1, i)),
        Some(i) if i + 1 == b.len() => Some((b.len(), b.len())),
        Some(i) if b[i + 1] == b'\n' => Some((i + 2, i + 1)),
        Some(_) => None,
    }
}

fn spaced(x: &[u8]) -> Vec<u8> {
    let mut v = Vec::with_capacity(x.len() + 1);
    v.push(b' ');
    v.extend_from_slice(x);
    v
}

struct Expect {
    rk: String,
    sk: String,
    r: String,
    /// the reader stream decoded through the slice parser (cross-parser check, positions aside)
    rx: String,
    s: String,
    ir: bool,
    is: bool,
}

fn expect(bytes: &[u8]) -> Expect {
    match ref_strip(bytes) {
        None => Expect { rk: "io".into(), sk: "io".into(), r: "io Some(InvalidData)".into(), rx: "io Some(InvalidData)".into(), s: "err io InvalidData".into(), ir: false, is: false },
        Some((rk, sk)) => {
            let xr = spaced(&bytes[rk..]);
            let xs = spaced(&bytes[sk..]);
            Expect {
                rk: rk.to_string(),
                sk: sk.to_string(),
                r: outcome(decode(&xr[..]), true),
                rx: outcome(decode_slice(&xr), true),
                s: outcome(decode_slice(&xs), true),
                ir: is_sourcemap_slice(&xr),
                is: is_sourcemap_slice(&xs),
            }
        }
    }
}

fn short(s: &str) -> String {
    let t: String = s.chars().take(70).collect();
    t.replace(' ', "_")
}

/// reader path: full agreement with the reader oracle and, positions aside, with the slice oracle
fn cmp_r(actual: &str, e: &Expect) -> String {
    if actual == e.r && nopos(actual) == nopos(&e.rx) {
        "match".into()
    } else {
        format!("DIFF[{}|{}|{}]", short(actual), short(&e.r), short(&e.rx))
    }
}

fn cmp(actual: &str, expected: &str) -> String {
    if actual == expected {
        "match".into()
    } else {
        format!("DIFF[{}|{}]", short(actual), short(expected))
    }
}

/// the typed entry points (`SourceMap::from_reader` / `from_slice`, likewise for index and Hermes maps and for
/// `DecodedMap`) are thin wrappers around `decode` / `decode_slice`; they must agree with each other on every
/// input under every chunking exactly as the untyped ones do: both succeed with the same serialised map, or both fail
fn typed_agree(bytes: &[u8], sizes: &[usize]) -> bool {
    fn ser<M, E>(r: Result<M, E>, w: impl Fn(&M, &mut Vec<u8>) -> bool) -> Option<Vec<u8>> {
        match r {
            Ok(m) => {
                let mut b = vec![];
                if w(&m, &mut b) {
                    Some(b)
                } else {
                    Some(b"<unserialisable>".to_vec())
                }
            }
            Err(_) => None,
        }
    }
    let a1 = ser(sourcemap::SourceMap::from_reader(ChunkReader::new(bytes, sizes)), |m, b| m.to_writer(b).is_ok());
    let a2 = ser(sourcemap::SourceMap::from_slice(bytes), |m, b| m.to_writer(b).is_ok());
    let b1 = ser(sourcemap::SourceMapIndex::from_reader(ChunkReader::new(bytes, sizes)), |m, b| m.to_writer(b).is_ok());
    let b2 = ser(sourcemap::SourceMapIndex::from_slice(bytes), |m, b| m.to_writer(b).is_ok());
    let c1 = ser(sourcemap::SourceMapHermes::from_reader(ChunkReader::new(bytes, sizes)), |m, b| m.to_writer(b).is_ok());
    let c2 = ser(sourcemap::SourceMapHermes::from_slice(bytes), |m, b| m.to_writer(b).is_ok());
    let d1 = ser(DecodedMap::from_reader(ChunkReader::new(bytes, sizes)), |m, b| m.to_writer(b).is_ok());
    let d2 = ser(decode_slice(bytes), |m, b| m.to_writer(b).is_ok());
    a1 == a2 && b1 == b2 && c1 == c2 && d1 == d2
}

fn chunked(t: &[&str]) -> String {
    let bytes = parse_hex(t[1]);
    let sizes: Vec<usize> = split_list(t[2]).iter().map(|x| x.parse().unwrap_or(1)).collect();
    let e = expect(&bytes);
    let mut rd = ChunkReader::new(&bytes, &sizes);
    let ar = outcome(decode(&mut rd), false);
    let rn = if ar.starts_with("io ") { rd.calls.to_string() } else { "-".to_string() };
    if rd.max_buf > BUF {
        return format!("ok BUF-ASSUMPTION-BROKEN {}", rd.max_buf);
    }
    let as_ = outcome(decode_slice(&bytes), false);
    let agree = ((is_ok(&ar) && ar == as_) || (!is_ok(&ar) && !is_ok(&as_))) && typed_agree(&bytes, &sizes);
    let mut rd2 = ChunkReader::new(&bytes, &sizes);
    let air = is_sourcemap(&mut rd2);
    let ais = is_sourcemap_slice(&bytes);
    format!(
        "ok rk={} sk={} r={} s={} agree={} ir={} is={} iagree={} rn={}",
        e.rk,
        e.sk,
        cmp_r(&ar, &e),
        cmp(&as_, &e.s),
        agree as u8,
        cmp(&air.to_string(), &e.ir.to_string()),
        cmp(&ais.to_string(), &e.is.to_string()),
        (air == ais) as u8,
        rn
    )
}

/// mode 1 / 2: all chunkings with at most that many split points; mode 9: every chunking (all
/// 2^(len-1) compositions; the generator keeps len <= 12); the unsplit one first
fn chunkings(len: usize, mode: usize) -> Vec<Vec<usize>> {
    let mut v = vec![];
    if len == 0 {
        v.push(vec![]);
        return v;
    }
    if mode >= 9 {
        // bit i of mask set = a read boundary after byte i
        for mask in 0u32..(1u32 << (len - 1).min(20)) {
            let mut sizes = vec![];
            let mut cur = 0usize;
            for i in 0..len {
                cur += 1;
                if i + 1 == len || (mask >> i) & 1 == 1 {
                    sizes.push(cur);
                    cur = 0;
                }
            }
            v.push(sizes);
        }
        return v;
    }
    v.push(vec![len]);
    for i in 1..len {
        v.push(vec![i, len - i]);
    }
    if mode >= 2 {
        for i in 1..len {
            for j in i + 1..len {
                v.push(vec![i, j - i, len - j]);
            }
        }
    }
    v
}

fn splits(t: &[&str]) -> String {
    let bytes = parse_hex(t[1]);
    let mode: usize = t[2].parse().unwrap_or(1);
    let e = expect(&bytes);
    let as_ = outcome(decode_slice(&bytes), false);
    let ais = is_sourcemap_slice(&bytes);
    let mut bad = 0usize;
    let mut first_bad = String::new();
    let mut rn = 0usize;
    let cs = chunkings(bytes.len(), mode);
    for sizes in &cs {
        let mut rd = ChunkReader::new(&bytes, sizes);
        let ar = outcome(decode(&mut rd), false);
        if ar.starts_with("io ") {
            rn += rd.calls;
        }
        let mut rd2 = ChunkReader::new(&bytes, sizes);
        let air = is_sourcemap(&mut rd2);
        let agree = (is_ok(&ar) && ar == as_) || (!is_ok(&ar) && !is_ok(&as_));
        if cmp_r(&ar, &e) != "match" || air != e.ir || !agree || air != ais {
            bad += 1;
            if first_bad.is_empty() {
                first_bad = format!("[{}:{}|{}]", show_list(sizes), short(&ar), short(&e.r));
            }
        }
    }
    format!(
        "ok rk={} sk={} s={} is={} n={} bad={}{} rn={}",
        e.rk,
        e.sk,
        cmp(&as_, &e.s),
        cmp(&ais.to_string(), &e.is.to_string()),
        cs.len(),
        bad,
        first_bad,
        rn
    )
}

// ---------------------------------------------------------------- data URLs

fn b64_val(c: u8) -> Option<u32> {
    match c {
        b'A'..=b'Z' => Some((c - b'A') as u32),
        b'a'..=b'z' => Some((c - b'a') as u32 + 26),
        b'0'..=b'9' => Some((c - b'0') as u32 + 52),
        b'+' => Some(62),
        b'/' => Some(63),
        _ => None,
    }
}

/// reference RFC 4648 decoder: canonical (padding required, unused bits zero); like data-encoding it
/// accepts a padded block anywhere (concatenated encodings)
fn ref_b64(s: &[u8]) -> Option<Vec<u8>> {
    if s.len() % 4 != 0 {
        return None;
    }
    let mut out = vec![];
    for q in s.chunks(4) {
        let n = if q[3] != b'=' { 4 } else if q[2] != b'=' { 3 } else { 2 };
        let mut acc = 0u32;
        for &c in &q[..n] {
            acc = (acc << 6) | b64_val(c)?;
        }
        match n {
            4 => out.extend_from_slice(&[(acc >> 16) as u8, (acc >> 8) as u8, acc as u8]),
            3 => {
                if acc & 3 != 0 {
                    return None;
                }
                out.extend_from_slice(&[(acc >> 10) as u8, (acc >> 2) as u8]);
            }
            _ => {
                if acc & 15 != 0 {
                    return None;
                }
                out.push((acc >> 4) as u8);
            }
        }
    }
    Some(out)
}

const PREFIXES: [&str; 2] = ["data:application/json;base64,", "data:application/json;charset=utf-8;base64,"];

fn dataurl(t: &[&str]) -> String {
    let raw = parse_hex(t[1]);
    let url = match String::from_utf8(raw) {
        Ok(u) => u,
        Err(_) => return "skip".into(),
    };
    let actual = decode_data_url(&url);
    let payload = PREFIXES.iter().find_map(|p| url.strip_prefix(p)).and_then(|b| ref_b64(b.as_bytes()));
    match payload {
        None => match actual {
            Err(Error::InvalidDataUrl) => "err dataurl".into(),
            other => format!("ok DIFF[{}|err_dataurl]", short(&outcome(other, false))),
        },
        Some(p) => {
            let a = outcome(actual, false);
            let e = outcome(decode_slice(&p), false);
            format!("ok p={} d={}", to_hex(&p), cmp(&a, &e))
        }
    }
}

/// `hdr.b64enc <json-hex>`: the JSON must be exactly what `to_writer` emits for the map it decodes to
/// (otherwise `skip`); prints the data URL `to_data_url` builds from it and whether it decodes back
fn b64enc(t: &[&str]) -> String {
    let json = parse_hex(t[1]);
    let sm = match decode_slice(&json) {
        Ok(DecodedMap::Regular(sm)) => sm,
        _ => return "skip".into(),
    };
    let mut buf = vec![];
    if sm.to_writer(&mut buf).is_err() || buf != json {
        return "skip".into();
    }
    let url = match sm.to_data_url() {
        Ok(u) => u,
        Err(e) => return format!("err {}", err_kind(&e)),
    };
    let back = outcome(decode_data_url(&url), false);
    let e = outcome(decode_slice(&json), false);
    format!("ok {} rt={}", to_hex(url.as_bytes()), cmp(&back, &e))
}

pub fn run(t: &[&str]) -> String {
    match t[0] {
        "hdr.chunked" => chunked(t),
        "hdr.splits" => splits(t),
        "hdr.dataurl" => dataurl(t),
        "hdr.b64enc" => b64enc(t),
        _ => "bad-op".into(),
    }
}
