//! Line-protocol helpers shared by all ops (mirrors lean/SmVerif/Model/Proto.lean).
pub fn parse_hex(s: &str) -> Vec<u8> {
    if s == "-" {
        return vec![];
    }
    let b = s.as_bytes();
    let v = |c: u8| -> u8 {
        match c {
            b'0'..=b'9' => c - b'0',
            b'a'..=b'f' => c - b'a' + 10,
            b'A'..=b'F' => c - b'A' + 10,
            _ => 0,
        }
    };
    b.chunks(2).filter(|c| c.len() == 2).map(|c| v(c[0]) * 16 + v(c[1])).collect()
}
pub fn to_hex(b: &[u8]) -> String {
    if b.is_empty() {
        return "-".into();
    }
    let mut s = String::with_capacity(b.len() * 2);
    for x in b {
        s.push_str(&format!("{:02x}", x));
    }
    s
}
pub fn split_list(s: &str) -> Vec<&str> {
    if s == "-" || s.is_empty() {
        vec![]
    } else {
        s.split(',').collect()
    }
}
pub fn parse_ints(s: &str) -> Vec<i64> {
    split_list(s).iter().map(|x| x.parse::<i64>().unwrap_or(0)).collect()
}
pub fn parse_u32s(s: &str) -> Vec<u32> {
    split_list(s).iter().map(|x| x.parse::<u32>().unwrap_or(0)).collect()
}
pub fn show_list<T: ToString>(xs: &[T]) -> String {
    if xs.is_empty() {
        "-".into()
    } else {
        xs.iter().map(|x| x.to_string()).collect::<Vec<_>>().join(",")
    }
}
/// text of a hex field as a String (cases only carry valid UTF-8 where a &str is needed)
pub fn hex_str(s: &str) -> Option<String> {
    String::from_utf8(parse_hex(s)).ok()
}
/// canonical error kind
pub fn err_kind(e: &sourcemap::Error) -> &'static str {
    use sourcemap::Error::*;
    match e {
        Io(_) => "io",
        Scroll(_) => "scroll",
        Utf8(_) => "utf8",
        BadJson(_) => "json",
        VlqLeftover => "leftover",
        VlqNoValues => "novalues",
        VlqOverflow => "overflow",
        BadSegmentSize(_) => "segsize",
        BadSourceReference(_) => "srcref",
        BadNameReference(_) => "nameref",
        IncompatibleSourceMap => "incompatible",
        InvalidDataUrl => "dataurl",
        CannotFlatten(_) => "flatten",
        InvalidRamBundleMagic => "rammagic",
        InvalidRamBundleIndex => "ramindex",
        InvalidRamBundleEntry => "ramentry",
        NotARamBundle => "notram",
        InvalidRangeMappingIndex(_) => "rmi",
        InvalidBase64(_) => "b64",
    }
}

/// C04, second sentence: iterating a map yields non-decreasing generated positions, `get_token(i)` is the i-th
/// iterated token and the count matches.  Returns "" when that holds, a marker that no model ever prints otherwise.
pub fn order_marker(sm: &sourcemap::SourceMap) -> &'static str {
    let mut prev: Option<(u32, u32)> = None;
    let mut n = 0usize;
    for (i, t) in sm.tokens().enumerate() {
        let p = t.get_dst();
        if let Some(q) = prev {
            if p < q {
                return "ORDER-VIOLATED";
            }
        }
        prev = Some(p);
        match sm.get_token(i) {
            Some(g) if g.get_raw_token() == t.get_raw_token() => {}
            _ => return "GETTOKEN-MISMATCH",
        }
        n += 1;
    }
    if n != sm.get_token_count() as usize || sm.get_token(n).is_some() {
        return "GETTOKEN-MISMATCH";
    }
    ""
}


/// every way of reading a token's positions must tell the same story: the pair accessors and the tuple are thin
/// wrappers over the single accessors (which include the range offset of a lookup, C07)
pub fn token_accessors_agree(t: &sourcemap::Token<'_>) -> bool {
    t.get_src() == (t.get_src_line(), t.get_src_col())
        && t.get_dst() == (t.get_dst_line(), t.get_dst_col())
        && t.to_tuple() == (t.get_source().unwrap_or(""), t.get_src_line(), t.get_src_col(), t.get_name())
}
