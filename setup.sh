#!/bin/sh
# Build the framework from files on disk only (offline): Lean library + driver, Rust harness.
set -e
cd "$(dirname "$0")"
export CARGO_NET_OFFLINE=true
python3 tools/extract_consts.py || true
# Rust -> Lean translator (syn is in the offline cargo registry) and the generated modules + tie theorems
(cd tools/rs2lean && cargo build --release --offline) || echo "rs2lean build failed: translation tie will be reported as lost"
[ -x tools/rs2lean/target/release/rs2lean ] && tools/rs2lean/target/release/rs2lean ${VERIF_REPO:-/repo}/src lean/SmVerif/Generated || true
(cd lean && lake build SmVerif smdriver)
(cd lean && lake build SmVerif.Tie.Vlq SmVerif.Tie.Header SmVerif.Tie.Small SmVerif.Tie.Lookup SmVerif.Tie.Paths SmVerif.Tie.Hermes SmVerif.Tie.Decode SmVerif.Tie.Serialize SmVerif.Tie.Props SmVerif.Tie.Props2 SmVerif.Tie.Props3 SmVerif.Tie.RamBundle SmVerif.Tie.SourceView SmVerif.Tie.Detect SmVerif.Tie.Prefix SmVerif.Tie.Builder SmVerif.Tie.JsIdent SmVerif.Tie.Reader SmVerif.Tie.Index SmVerif.Tie.Adjust SmVerif.Tie.Builder2 SmVerif.Tie.Flatten SmVerif.Tie.Rewrite SmVerif.Tie.HermesDecode SmVerif.Tie.GetLine SmVerif.Tie.RevIter SmVerif.Tie.DecodeCommon SmVerif.Tie.Rewrite2 SmVerif.Tie.Flatten2 SmVerif.Generated.RsFlatten SmVerif.Generated.RsRewrite) || echo "tie modules did not build: translation tie will be reported as lost"
[ -f harness/Cargo.lock ] || cp /repo/Cargo.lock harness/Cargo.lock
(cd harness && cargo build --release --offline --bin smv)
echo setup done
