#!/bin/sh
# Build the framework from files on disk only (offline): Lean library + driver, Rust harness.
set -e
cd "$(dirname "$0")"
export CARGO_NET_OFFLINE=true
python3 tools/extract_consts.py || true
(cd lean && lake build SmVerif smdriver)
[ -f harness/Cargo.lock ] || cp /repo/Cargo.lock harness/Cargo.lock
(cd harness && cargo build --release --offline --bin smv)
echo setup done
